#![feature(rustc_private)]
extern crate rustc_abi;
extern crate rustc_driver;
extern crate rustc_hir;
extern crate rustc_interface;
extern crate rustc_middle;
extern crate rustc_span;

use rustc_driver::Compilation;
use rustc_hir::def::DefKind;
use rustc_hir::def_id::{DefId, LOCAL_CRATE};
use rustc_interface::interface::Compiler;
use rustc_middle::mir::{
    self, AggregateKind, Body, Const, ConstValue, Operand, Place, ProjectionElem, Rvalue,
    StatementKind, TerminatorKind, UnwindAction,
};
use rustc_middle::ty::print::with_no_trimmed_paths;
use rustc_middle::ty::{self, Ty, TyCtxt};
use std::fmt::Write as _;

fn esc(s: &str) -> String {
    let mut o = String::with_capacity(s.len() + 2);
    o.push('"');
    for c in s.chars() {
        match c {
            '"' => o.push_str("\\\""),
            '\\' => o.push_str("\\\\"),
            '\n' => o.push_str("\\n"),
            '\t' => o.push_str("\\t"),
            '\r' => o.push_str("\\r"),
            c if (c as u32) < 0x20 => {
                let _ = write!(o, "\\u{:04x}", c as u32);
            }
            c => o.push(c),
        }
    }
    o.push('"');
    o
}

struct Cx<'tcx> {
    tcx: TyCtxt<'tcx>,
}

impl<'tcx> Cx<'tcx> {
    fn path(&self, d: DefId) -> String {
        with_no_trimmed_paths!(self.tcx.def_path_str(d))
    }
    fn ty(&self, t: Ty<'tcx>) -> String {
        with_no_trimmed_paths!(t.to_string())
    }
    fn span(&self, sp: rustc_span::Span) -> String {
        let sm = self.tcx.sess.source_map();
        let sp2 = sp.source_callsite();
        let lo = sm.lookup_char_pos(sp2.lo());
        format!("{}:{}", lo.file.name.prefer_local_unconditionally(), lo.line)
    }
    fn ty_json(&self, t: Ty<'tcx>) -> String {
        let mut s = format!("{{\"s\":{}", esc(&self.ty(t)));
        match t.kind() {
            ty::Adt(adt, args) => {
                let _ = write!(s, ",\"adt\":{}", esc(&self.path(adt.did())));
                let a: Vec<String> = args.types().map(|x| self.ty_json(x)).collect();
                let _ = write!(s, ",\"args\":[{}]", a.join(","));
            }
            ty::Ref(_, inner, m) => {
                let _ = write!(s, ",\"ref\":{},\"mut\":{}", self.ty_json(*inner), m.is_mut());
            }
            ty::Tuple(ts) => {
                let a: Vec<String> = ts.iter().map(|x| self.ty_json(x)).collect();
                let _ = write!(s, ",\"tuple\":[{}]", a.join(","));
            }
            ty::Closure(d, _) => {
                let _ = write!(s, ",\"closure\":{}", esc(&self.path(*d)));
            }
            ty::FnDef(d, _) => {
                let _ = write!(s, ",\"fndef\":{}", esc(&self.path(*d)));
            }
            _ => {
                let _ = write!(s, ",\"prim\":true");
            }
        }
        s.push('}');
        s
    }
    fn place(&self, body: &Body<'tcx>, p: &Place<'tcx>) -> String {
        let mut s = format!("{{\"l\":{},\"p\":[", p.local.as_usize());
        let mut first = true;
        let mut cur = mir::PlaceTy::from_ty(body.local_decls[p.local].ty);
        for e in p.projection.iter() {
            if !first {
                s.push(',');
            }
            first = false;
            match e {
                ProjectionElem::Deref => s.push_str("\"deref\""),
                ProjectionElem::Field(f, t) => {
                    let mut fname = String::new();
                    if let ty::Adt(adt, _) = cur.ty.kind() {
                        let vi = cur.variant_index.unwrap_or(rustc_abi::FIRST_VARIANT);
                        if let Some(v) = adt.variants().get(vi) {
                            if let Some(fd) = v.fields.get(f) {
                                fname = fd.name.to_string();
                            }
                        }
                    }
                    let _ = write!(s, "{{\"f\":{},\"name\":{},\"ty\":{}}}", f.as_usize(), esc(&fname), esc(&self.ty(t)));
                }
                ProjectionElem::Downcast(name, vi) => {
                    let _ = write!(s, "{{\"downcast\":{},\"name\":{}}}", vi.as_usize(), esc(&name.map(|n| n.to_string()).unwrap_or_default()));
                }
                ProjectionElem::Index(l) => {
                    let _ = write!(s, "{{\"index\":{}}}", l.as_usize());
                }
                ProjectionElem::ConstantIndex { offset, from_end, .. } => {
                    let _ = write!(s, "{{\"cidx\":{},\"from_end\":{}}}", offset, from_end);
                }
                other => {
                    let _ = write!(s, "{{\"other\":{}}}", esc(&format!("{:?}", other)));
                }
            }
            cur = cur.projection_ty(self.tcx, e);
        }
        let _ = write!(s, "],\"ty\":{}}}", esc(&self.ty(cur.ty)));
        s
    }
    fn ty_const_json(&self, ct: ty::Const<'tcx>) -> String {
        if let ty::ConstKind::Param(p) = ct.kind() {
            return format!("{{\"cparam\":{}}}", esc(&p.name.to_string()));
        }
        if let Some(v) = ct.try_to_target_usize(self.tcx) {
            return format!("{}", v);
        }
        "null".to_string()
    }
    fn konst(&self, owner: DefId, c: &mir::ConstOperand<'tcx>) -> String {
        let ty = c.const_.ty();
        let te = ty::TypingEnv::post_analysis(self.tcx, owner);
        let mut s = format!("{{\"k\":\"const\",\"ty\":{}", esc(&self.ty(ty)));
        if let Const::Ty(_, ct) = c.const_ {
            if let ty::ConstKind::Param(p) = ct.kind() {
                let _ = write!(s, ",\"cparam\":{}}}", esc(&p.name.to_string()));
                return s;
            }
        }
        if let ty::FnDef(d, args) = ty.kind() {
            let _ = write!(s, ",\"fn\":{},\"raw\":{}", esc(&self.path(*d)), esc(&with_no_trimmed_paths!(self.tcx.def_path_str_with_args(*d, args))));
            s.push('}');
            return s;
        }
        if let Const::Unevaluated(uv, _) = c.const_ {
            if let Some(p) = uv.promoted {
                let _ = write!(s, ",\"promoted\":{},\"of\":{}", p.as_usize(), esc(&self.path(uv.def)));
                s.push('}');
                return s;
            }
            let _ = write!(s, ",\"named\":{}", esc(&self.path(uv.def)));
        }
        let val = match c.const_ {
            Const::Val(v, _) => Some(v),
            _ => c.const_.eval(self.tcx, te, c.span).ok(),
        };
        match val {
            Some(ConstValue::Scalar(sc)) => {
                if let Ok(i) = sc.try_to_scalar_int() {
                    let bits = i.to_bits(i.size());
                    if ty.is_floating_point() && i.size().bytes() == 8 {
                        let f = f64::from_bits(bits as u64);
                        let _ = write!(s, ",\"bits\":\"{:#018x}\",\"f64\":{}", bits as u64, if f.is_finite() { format!("{:?}", f) } else { format!("\"{:?}\"", f) });
                    } else if ty.is_bool() {
                        let _ = write!(s, ",\"bool\":{}", bits != 0);
                    } else if ty.is_integral() || ty.is_char() {
                        if ty.is_signed() {
                            let sz = i.size();
                            let _ = write!(s, ",\"int\":{}", sz.sign_extend(bits) as i128);
                        } else {
                            let _ = write!(s, ",\"int\":{}", bits);
                        }
                    } else {
                        let _ = write!(s, ",\"scalar\":\"{:#x}\"", bits);
                    }
                } else {
                    let inner = self.const_value_json(ConstValue::Scalar(sc), ty);
                    // splice the pointee description (everything after the type) into this object
                    if let Some(pos) = inner.find(",\"refto\"").or_else(|| inner.find(",\"fn\"")) {
                        s.push_str(&inner[pos..inner.len() - 1]);
                    } else {
                        let _ = write!(s, ",\"ptr\":true");
                    }
                }
            }
            Some(ConstValue::ZeroSized) => {
                let _ = write!(s, ",\"zst\":true");
            }
            Some(other) => {
                let mut done = false;
                if let ConstValue::Slice { alloc_id, meta } = other {
                    if let ty::Ref(_, inner, _) = ty.kind() {
                        if inner.is_str() && meta <= 4096 {
                            if let rustc_middle::mir::interpret::GlobalAlloc::Memory(a) = self.tcx.global_alloc(alloc_id) {
                                let bytes = a.inner().inspect_with_uninit_and_ptr_outside_interpreter(0..meta as usize);
                                if let Ok(st) = std::str::from_utf8(bytes) {
                                    let _ = write!(s, ",\"str\":{}", esc(st));
                                    done = true;
                                }
                            }
                        }
                    }
                }
                if let ty::Adt(adt, _) = ty.kind() {
                    if adt.is_enum() || adt.is_struct() {
                        if let Some(d) = self.tcx.try_destructure_mir_constant_for_user_output(other, ty) {
                            if let Some(vi) = d.variant {
                                let v = adt.variant(vi);
                                let mut fs = Vec::new();
                                for (fv, fty) in d.fields.iter() {
                                    fs.push(self.const_value_json(*fv, *fty));
                                }
                                let _ = write!(s, ",\"variant\":{},\"vidx\":{},\"fields\":[{}]", esc(&v.name.to_string()), vi.as_usize(), fs.join(","));
                                done = true;
                            }
                        }
                    }
                }
                if !done {
                    if matches!(ty.kind(), ty::Array(..) | ty::Tuple(..)) {
                        if let Some(d) = self.tcx.try_destructure_mir_constant_for_user_output(other, ty) {
                            if d.fields.len() <= 256 {
                                let fs: Vec<String> = d.fields.iter().map(|(fv, fty)| self.const_value_json(*fv, *fty)).collect();
                                let _ = write!(s, ",\"elems\":[{}]", fs.join(","));
                                done = true;
                            }
                        }
                    }
                }
                if !done {
                    let _ = write!(s, ",\"other\":{}", esc(&format!("{:?}", other).chars().take(80).collect::<String>()));
                }
            }
            None => {
                let _ = write!(s, ",\"uneval\":true");
            }
        }
        s.push('}');
        s
    }
    fn const_value_json(&self, v: ConstValue, ty: Ty<'tcx>) -> String {
        let mut s = format!("{{\"k\":\"const\",\"ty\":{}", esc(&self.ty(ty)));
        match v {
            ConstValue::Scalar(sc) => {
                if let rustc_middle::mir::interpret::Scalar::Ptr(ptr, _) = sc {
                    let (prov, _off) = ptr.prov_and_relative_offset();
                    if let rustc_middle::mir::interpret::GlobalAlloc::Function { instance } = self.tcx.global_alloc(prov.alloc_id()) {
                        let _ = write!(s, ",\"fn\":{}", esc(&self.path(instance.def_id())));
                        if let Some(t0) = instance.args.types().next() {
                            if let ty::Closure(cd, _) = t0.kind() {
                                let _ = write!(s, ",\"closure\":{}", esc(&self.path(*cd)));
                            }
                        }
                    } else if let rustc_middle::mir::interpret::GlobalAlloc::Memory(_) = self.tcx.global_alloc(prov.alloc_id()) {
                        // reference to constant memory (`&CONST_ITEM`): export the pointee
                        let mut done = false;
                        if let ty::Ref(_, inner, _) = ty.kind() {
                            if matches!(inner.kind(), ty::Adt(..) | ty::Array(..) | ty::Tuple(..)) {
                                let cv = ConstValue::Indirect { alloc_id: prov.alloc_id(), offset: _off };
                                let _ = write!(s, ",\"refto\":{}", self.const_value_json(cv, *inner));
                                done = true;
                            }
                        }
                        if !done {
                            let _ = write!(s, ",\"ptr\":true");
                        }
                    } else {
                        let _ = write!(s, ",\"ptr\":true");
                    }
                } else if let Ok(i) = sc.try_to_scalar_int() {
                    let bits = i.to_bits(i.size());
                    if ty.is_floating_point() && i.size().bytes() == 8 {
                        let f = f64::from_bits(bits as u64);
                        let _ = write!(s, ",\"f64\":{}", if f.is_finite() { format!("{:?}", f) } else { format!("\"{:?}\"", f) });
                    } else if ty.is_bool() {
                        let _ = write!(s, ",\"bool\":{}", bits != 0);
                    } else if ty.is_integral() {
                        if ty.is_signed() {
                            let _ = write!(s, ",\"int\":{}", i.size().sign_extend(bits) as i128);
                        } else {
                            let _ = write!(s, ",\"int\":{}", bits);
                        }
                    } else {
                        let _ = write!(s, ",\"scalar\":\"{:#x}\"", bits);
                    }
                }
            }
            ConstValue::ZeroSized => {
                let _ = write!(s, ",\"zst\":true");
            }
            other => {
                let mut done = false;
                if let ty::Adt(adt, _) = ty.kind() {
                    if let Some(d) = self.tcx.try_destructure_mir_constant_for_user_output(other, ty) {
                        if let Some(vi) = d.variant {
                            let vv = adt.variant(vi);
                            let fs: Vec<String> = d.fields.iter().map(|(fv, fty)| self.const_value_json(*fv, *fty)).collect();
                            let _ = write!(s, ",\"variant\":{},\"vidx\":{},\"fields\":[{}]", esc(&vv.name.to_string()), vi.as_usize(), fs.join(","));
                            done = true;
                        }
                    }
                }
                if !done {
                    if matches!(ty.kind(), ty::Array(..) | ty::Tuple(..)) {
                        if let Some(d) = self.tcx.try_destructure_mir_constant_for_user_output(other, ty) {
                            if d.fields.len() <= 256 {
                                let fs: Vec<String> = d.fields.iter().map(|(fv, fty)| self.const_value_json(*fv, *fty)).collect();
                                let _ = write!(s, ",\"elems\":[{}]", fs.join(","));
                                done = true;
                            }
                        }
                    }
                }
                if !done {
                    let _ = write!(s, ",\"other\":\"?\"");
                }
            }
        }
        s.push('}');
        s
    }
    fn operand(&self, owner: DefId, body: &Body<'tcx>, o: &Operand<'tcx>) -> String {
        match o {
            Operand::Copy(p) => format!("{{\"k\":\"copy\",\"place\":{}}}", self.place(body, p)),
            Operand::Move(p) => format!("{{\"k\":\"move\",\"place\":{}}}", self.place(body, p)),
            Operand::Constant(c) => self.konst(owner, c),
            #[allow(unreachable_patterns)]
            other => format!("{{\"k\":\"other\",\"s\":{}}}", esc(&format!("{:?}", other))),
        }
    }
    fn rvalue(&self, owner: DefId, body: &Body<'tcx>, rv: &Rvalue<'tcx>) -> String {
        match rv {
            Rvalue::Use(o, ..) => format!("{{\"k\":\"use\",\"a\":{}}}", self.operand(owner, body, o)),
            Rvalue::BinaryOp(op, ops) => format!(
                "{{\"k\":\"bin\",\"op\":{},\"a\":{},\"b\":{}}}",
                esc(&format!("{:?}", op)),
                self.operand(owner, body, &ops.0),
                self.operand(owner, body, &ops.1)
            ),
            Rvalue::UnaryOp(op, a) => format!("{{\"k\":\"un\",\"op\":{},\"a\":{}}}", esc(&format!("{:?}", op)), self.operand(owner, body, a)),
            Rvalue::Cast(kind, a, t) => format!(
                "{{\"k\":\"cast\",\"kind\":{},\"a\":{},\"to\":{}}}",
                esc(&format!("{:?}", kind)),
                self.operand(owner, body, a),
                esc(&self.ty(*t))
            ),
            Rvalue::Ref(_, bk, p) => format!(
                "{{\"k\":\"ref\",\"mut\":{},\"place\":{}}}",
                matches!(bk, mir::BorrowKind::Mut { .. }),
                self.place(body, p)
            ),
            Rvalue::RawPtr(_, p) => format!("{{\"k\":\"rawptr\",\"place\":{}}}", self.place(body, p)),
            Rvalue::Discriminant(p) => format!("{{\"k\":\"discr\",\"place\":{}}}", self.place(body, p)),
            Rvalue::Aggregate(kind, ops) => {
                let o: Vec<String> = ops.iter().map(|x| self.operand(owner, body, x)).collect();
                let k = match &**kind {
                    AggregateKind::Adt(d, vi, _, _, _) => {
                        let adt = self.tcx.adt_def(*d);
                        let v = adt.variant(*vi);
                        format!("{{\"adt\":{},\"variant\":{},\"vname\":{}}}", esc(&self.path(*d)), vi.as_usize(), esc(&v.name.to_string()))
                    }
                    AggregateKind::Tuple => "\"tuple\"".to_string(),
                    AggregateKind::Array(_) => "\"array\"".to_string(),
                    AggregateKind::Closure(d, _) => format!("{{\"closure\":{}}}", esc(&self.path(*d))),
                    other => format!("{{\"other\":{}}}", esc(&format!("{:?}", other))),
                };
                format!("{{\"k\":\"agg\",\"agg\":{},\"ops\":[{}]}}", k, o.join(","))
            }
            Rvalue::Repeat(op, ct) => format!(
                "{{\"k\":\"repeat\",\"a\":{},\"len\":{}}}",
                self.operand(owner, body, op),
                self.ty_const_json(*ct)
            ),
            other => format!("{{\"k\":\"other\",\"s\":{}}}", esc(&format!("{:?}", other))),
        }
    }
    fn body_json(&self, owner: DefId, body: &Body<'tcx>, header: &str) -> String {
        let mut s = String::new();
        let _ = write!(s, "{{{}", header);
        let _ = write!(s, ",\"arg_count\":{}", body.arg_count);
        let locals: Vec<String> = body.local_decls.iter().map(|d| self.ty_json(d.ty)).collect();
        let _ = write!(s, ",\"locals\":[{}]", locals.join(","));
        let mut dbg = Vec::new();
        for v in &body.var_debug_info {
            if let mir::VarDebugInfoContents::Place(p) = &v.value {
                dbg.push(format!("{{\"name\":{},\"place\":{}}}", esc(&v.name.to_string()), self.place(body, p)));
            }
        }
        let _ = write!(s, ",\"debug\":[{}]", dbg.join(","));
        s.push_str(",\"blocks\":[");
        let mut firstb = true;
        for (_bb, data) in body.basic_blocks.iter_enumerated() {
            if !firstb {
                s.push(',');
            }
            firstb = false;
            let _ = write!(s, "{{\"cleanup\":{},\"stmts\":[", data.is_cleanup);
            let mut firsts = true;
            for st in &data.statements {
                let js = match &st.kind {
                    StatementKind::Assign(b) => Some(format!(
                        "{{\"k\":\"assign\",\"place\":{},\"rv\":{},\"span\":{},\"exp\":{}}}",
                        self.place(body, &b.0),
                        self.rvalue(owner, body, &b.1),
                        esc(&self.span(st.source_info.span)),
                        st.source_info.span.from_expansion()
                    )),
                    StatementKind::SetDiscriminant { place, variant_index } => Some(format!(
                        "{{\"k\":\"setdiscr\",\"place\":{},\"variant\":{}}}",
                        self.place(body, place),
                        variant_index.as_usize()
                    )),
                    _ => None,
                };
                if let Some(js) = js {
                    if !firsts {
                        s.push(',');
                    }
                    firsts = false;
                    s.push_str(&js);
                }
            }
            s.push_str("],\"term\":");
            let t = data.terminator();
            let unw = |u: &UnwindAction| match u {
                UnwindAction::Cleanup(b) => format!("{}", b.as_usize()),
                _ => "null".to_string(),
            };
            let tj = match &t.kind {
                TerminatorKind::Goto { target } => format!("{{\"k\":\"goto\",\"target\":{}}}", target.as_usize()),
                TerminatorKind::SwitchInt { discr, targets } => {
                    let ts: Vec<String> = targets.iter().map(|(v, b)| format!("[{},{}]", v, b.as_usize())).collect();
                    format!(
                        "{{\"k\":\"switch\",\"discr\":{},\"targets\":[{}],\"otherwise\":{}}}",
                        self.operand(owner, body, discr),
                        ts.join(","),
                        targets.otherwise().as_usize()
                    )
                }
                TerminatorKind::Return => "{\"k\":\"return\"}".to_string(),
                TerminatorKind::Unreachable => "{\"k\":\"unreachable\"}".to_string(),
                TerminatorKind::UnwindResume => "{\"k\":\"resume\"}".to_string(),
                TerminatorKind::Drop { place, target, unwind, .. } => format!(
                    "{{\"k\":\"drop\",\"place\":{},\"target\":{},\"unwind\":{}}}",
                    self.place(body, place),
                    target.as_usize(),
                    unw(unwind)
                ),
                TerminatorKind::Assert { cond, expected, msg, target, .. } => format!(
                    "{{\"k\":\"assert\",\"cond\":{},\"expected\":{},\"msg\":{},\"target\":{},\"span\":{}}}",
                    self.operand(owner, body, cond),
                    expected,
                    esc(&format!("{:?}", msg).chars().take(120).collect::<String>()),
                    target.as_usize(),
                    esc(&self.span(t.source_info.span))
                ),
                TerminatorKind::Call { func, args, destination, target, unwind, .. } => {
                    let a: Vec<String> = args.iter().map(|x| self.operand(owner, body, &x.node)).collect();
                    let callee = if let Some((d, gargs)) = func.const_fn_def() {
                        let te = ty::TypingEnv::post_analysis(self.tcx, owner);
                        let raw = with_no_trimmed_paths!(self.tcx.def_path_str_with_args(d, gargs));
                        let mut resolved = None;
                        if let Ok(Some(inst)) = ty::Instance::try_resolve(self.tcx, te, d, gargs) {
                            resolved = Some(inst.def_id());
                        }
                        let trait_of = self.tcx.trait_of_assoc(d).map(|t| self.path(t));
                        let ga: Vec<String> = gargs.types().map(|x| esc(&self.ty(x))).collect();
                        let mut ca: Vec<String> = Vec::new();
                        {
                            let mut g = Some(self.tcx.generics_of(d));
                            while let Some(gen) = g {
                                for prm in gen.own_params.iter() {
                                    if let ty::GenericParamDefKind::Const { .. } = prm.kind {
                                        if let Some(arg) = gargs.get(prm.index as usize) {
                                            if let Some(ct) = arg.as_const() {
                                                ca.push(format!("[{},{}]", esc(&prm.name.to_string()), self.ty_const_json(ct)));
                                            }
                                        }
                                    }
                                }
                                g = gen.parent.map(|pd| self.tcx.generics_of(pd));
                            }
                        }
                        format!(
                            "{{\"decl\":{},\"raw\":{},\"resolved\":{},\"trait\":{},\"local\":{},\"cargs\":[{}],\"gargs\":[{}]}}",
                            esc(&self.path(d)),
                            esc(&raw),
                            resolved.map(|r| esc(&self.path(r))).unwrap_or("null".into()),
                            trait_of.map(|t| esc(&t)).unwrap_or("null".into()),
                            resolved.map(|r| r.is_local()).unwrap_or(d.is_local()),
                            ca.join(","),
                            ga.join(",")
                        )
                    } else {
                        format!("{{\"indirect\":{}}}", self.operand(owner, body, func))
                    };
                    format!(
                        "{{\"k\":\"call\",\"callee\":{},\"args\":[{}],\"dest\":{},\"target\":{},\"unwind\":{},\"span\":{},\"exp\":{}}}",
                        callee,
                        a.join(","),
                        self.place(body, destination),
                        target.map(|b| b.as_usize().to_string()).unwrap_or("null".into()),
                        unw(unwind),
                        esc(&self.span(t.source_info.span)),
                        t.source_info.span.from_expansion()
                    )
                }
                other => format!("{{\"k\":\"other\",\"s\":{}}}", esc(&format!("{:?}", other).chars().take(200).collect::<String>())),
            };
            s.push_str(&tj);
            s.push('}');
        }
        s.push_str("]}");
        s
    }
}

struct Cb;
impl rustc_driver::Callbacks for Cb {
    fn after_analysis<'tcx>(&mut self, _c: &Compiler, tcx: TyCtxt<'tcx>) -> Compilation {
        let out_dir = match std::env::var("IPT_FACTS_DIR") {
            Ok(d) => d,
            Err(_) => return Compilation::Continue,
        };
        let cx = Cx { tcx };
        let krate = tcx.crate_name(LOCAL_CRATE).to_string();
        let is_test = tcx.sess.opts.test;
        let ctype = format!("{:?}", tcx.crate_types());
        let mut out = String::new();
        let _ = write!(out, "{{\"crate\":{},\"crate_types\":{},\"test\":{}", esc(&krate), esc(&ctype), is_test);
        // ADTs
        let mut adts = Vec::new();
        let mut impls = Vec::new();
        for id in tcx.hir_free_items() {
            let did = id.owner_id.to_def_id();
            match tcx.def_kind(did) {
                DefKind::Struct | DefKind::Enum => {
                    let adt = tcx.adt_def(did);
                    let mut vs = Vec::new();
                    for (vi, v) in adt.variants().iter_enumerated() {
                        let discr = if adt.is_enum() { format!("{}", adt.discriminant_for_variant(tcx, vi).val) } else { "null".into() };
                        let fs: Vec<String> = v
                            .fields
                            .iter()
                            .map(|f| {
                                format!(
                                    "{{\"name\":{},\"ty\":{},\"vis\":{}}}",
                                    esc(&f.name.to_string()),
                                    cx.ty_json(tcx.type_of(f.did).instantiate_identity().skip_norm_wip()),
                                    esc(&if f.vis.is_public() { "public".to_string() } else { "restricted".to_string() })
                                )
                            })
                            .collect();
                        vs.push(format!("{{\"name\":{},\"discr\":{},\"fields\":[{}]}}", esc(&v.name.to_string()), discr, fs.join(",")));
                    }
                    adts.push(format!(
                        "{{\"path\":{},\"enum\":{},\"vis\":{},\"variants\":[{}]}}",
                        esc(&cx.path(did)),
                        adt.is_enum(),
                        esc(&if tcx.visibility(did).is_public() { "public".to_string() } else { "restricted".to_string() }),
                        vs.join(",")
                    ));
                }
                DefKind::Impl { .. } => {
                    let tr = tcx.impl_opt_trait_ref(did).map(|t| cx.path(t.skip_binder().def_id));
                    let self_ty = cx.ty(tcx.type_of(did).instantiate_identity().skip_norm_wip());
                    let items: Vec<String> = tcx.associated_item_def_ids(did).iter().map(|d| esc(&cx.path(*d))).collect();
                    impls.push(format!(
                        "{{\"trait\":{},\"self_ty\":{},\"derived\":{},\"items\":[{}],\"span\":{}}}",
                        tr.map(|t| esc(&t)).unwrap_or("null".into()),
                        esc(&self_ty),
                        tcx.is_automatically_derived(did),
                        items.join(","),
                        esc(&cx.span(tcx.def_span(did)))
                    ));
                }
                _ => {}
            }
        }
        let _ = write!(out, ",\"adts\":[{}],\"impls\":[{}]", adts.join(","), impls.join(","));
        // bodies
        let mut bodies = Vec::new();
        for ldid in tcx.hir_body_owners() {
            let did = ldid.to_def_id();
            let kind = tcx.def_kind(did);
            let is_const = matches!(kind, DefKind::Const { .. } | DefKind::Static { .. } | DefKind::AssocConst { .. });
            if !is_const && !matches!(kind, DefKind::Fn | DefKind::AssocFn | DefKind::Closure) {
                continue;
            }
            let body = if is_const { tcx.mir_for_ctfe(did) } else { tcx.optimized_mir(did) };
            let parent = tcx.parent(did);
            let mut impl_of = "null".to_string();
            let mut derived = false;
            if matches!(kind, DefKind::AssocFn) {
                if let DefKind::Impl { .. } = tcx.def_kind(parent) {
                    let tr = tcx.impl_opt_trait_ref(parent).map(|t| cx.path(t.skip_binder().def_id));
                    let self_ty = cx.ty(tcx.type_of(parent).instantiate_identity().skip_norm_wip());
                    derived = tcx.is_automatically_derived(parent);
                    impl_of = format!("{{\"trait\":{},\"self_ty\":{}}}", tr.map(|t| esc(&t)).unwrap_or("null".into()), esc(&self_ty));
                } else if let DefKind::Trait = tcx.def_kind(parent) {
                    impl_of = format!("{{\"trait_default\":{}}}", esc(&cx.path(parent)));
                }
            }
            let vis = if matches!(kind, DefKind::Closure) || is_const { "n/a".to_string() } else if tcx.visibility(did).is_public() { "public".into() } else { "restricted".into() };
            let header = format!(
                "\"path\":{},\"kind\":{},\"parent\":{},\"impl_of\":{},\"derived\":{},\"vis\":{},\"span\":{},\"exp\":{}",
                esc(&cx.path(did)),
                esc(&format!("{:?}", kind)),
                esc(&cx.path(parent)),
                impl_of,
                derived,
                esc(&vis),
                esc(&cx.span(tcx.def_span(did))),
                tcx.def_span(did).from_expansion()
            );
            bodies.push(cx.body_json(did, body, &header));
            if !is_const {
                let proms = tcx.promoted_mir(did);
                for (i, p) in proms.iter_enumerated() {
                    let header = format!(
                        "\"path\":{},\"kind\":\"Promoted\",\"promoted_of\":{},\"promoted_idx\":{}",
                        esc(&format!("{}::promoted[{}]", cx.path(did), i.as_usize())),
                        esc(&cx.path(did)),
                        i.as_usize()
                    );
                    bodies.push(cx.body_json(did, p, &header));
                }
            }
        }
        let _ = write!(out, ",\"bodies\":[{}]}}", bodies.join(","));
        let kind = if is_test { "test" } else if ctype.contains("Executable") { "bin" } else { "lib" };
        let fname = format!("{}/{}-{}-{}.json", out_dir, krate, kind, std::process::id());
        std::fs::write(&fname, out).expect("write facts");
        Compilation::Continue
    }
}

fn main() {
    let mut args: Vec<String> = std::env::args().collect();
    args.remove(1);
    rustc_driver::run_compiler(&args, &mut Cb);
}
