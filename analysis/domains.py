"""Small abstract domains evaluated on engine terms (DESIGN 2.2).

Every evaluation has an explicit unknown (None / '?') that never raises an
alarm by itself.
"""
import math
from .engine import is_const, cval
from .terms import subterms


# ---------------------------------------------------------------------------
# strict upper bounds  (used for the NaiveTime construction guard, R7.5)
def _num(t):
    if is_const(t) and isinstance(cval(t), (int, float)) and not isinstance(cval(t), bool):
        return float(cval(t))
    return None


def facts_from_cond(c, truth):
    """upper-bound facts {term: (bound, strict)} implied by condition c being `truth`"""
    out = {}
    if not (isinstance(c, tuple) and c and c[0] == 'bin'):
        return out
    op, a, b = c[1], c[2], c[3]
    kb = _num(b)
    ka = _num(a)
    if kb is not None:
        # a op kb
        if truth and op == 'Lt':
            out[a] = (kb, True)
        elif truth and op == 'Le':
            out[a] = (kb, False)
        elif not truth and op == 'Ge':
            out[a] = (kb, True)      # !(a >= k)  =>  a < k  (or NaN, which casts to 0)
        elif not truth and op == 'Gt':
            out[a] = (kb, False)
    if ka is not None:
        # ka op b
        if truth and op == 'Gt':
            out[b] = (ka, True)
        elif truth and op == 'Ge':
            out[b] = (ka, False)
        elif not truth and op == 'Le':
            out[b] = (ka, True)
        elif not truth and op == 'Lt':
            out[b] = (ka, False)
    return out


def upper_bound(t, facts=None):
    """(bound, strict) such that t < bound (strict) or t <= bound, for finite
    inputs, or None when no bound can be derived from the term's shape."""
    facts = facts or {}
    if t in facts:
        return facts[t]
    k = _num(t)
    if k is not None:
        return (k, False)
    if not isinstance(t, tuple) or not t:
        return None
    tag = t[0]
    if tag == 'ite':
        fa = dict(facts)
        fa.update(facts_from_cond(t[1], True))
        fb = dict(facts)
        fb.update(facts_from_cond(t[1], False))
        a = upper_bound(t[2], fa)
        b = upper_bound(t[3], fb)
        if a is None or b is None:
            return None
        if a[0] > b[0] or (a[0] == b[0] and not a[1]):
            return a
        return b
    if tag == 'bin' and t[1] == 'Rem':
        k = _num(t[3])
        if k is not None and k > 0:
            return (k, True)
        return None
    if tag == 'app' and t[1] == 'rem_euclid' and len(t[2]) == 2:
        k = _num(t[2][1])
        if k is not None and k > 0:
            return (k, True)
        return None
    if tag == 'bin' and t[1] == 'Mul':
        for x, y in ((t[2], t[3]), (t[3], t[2])):
            k = _num(y)
            if k is not None and k > 0 and is_fraction(x):
                return (k, True)
        return None
    if tag == 'cast':
        return upper_bound(t[2], facts)
    return None


def is_fraction(x):
    """x - floor(x) (in [0, 1)) or x.fract() (in (-1, 1)): strictly below 1 - only used for upper bounds"""
    if not (isinstance(x, tuple) and x):
        return False
    if x[0] == 'app' and x[1] == 'fract' and len(x[2]) == 1:
        return True
    return x[0] == 'bin' and x[1] == 'Sub' and x[3] == ('app', 'floor', (x[2],))


# ---------------------------------------------------------------------------
# dependences
def atoms_of(t, is_atom):
    """set of atom terms occurring in t (conditions of ite terms included)"""
    out = set()
    for x in subterms(t):
        a = is_atom(x)
        if a is not None:
            out.add(a)
    return out


# ---------------------------------------------------------------------------
# value ranges (closed hull; unknown = (-inf, inf))
INF = float('inf')
TOP = (-INF, INF)


def _mul(a, b):
    ps = []
    for x in a:
        for y in b:
            if (x == 0 and abs(y) == INF) or (y == 0 and abs(x) == INF):
                ps.append(0.0)
            else:
                ps.append(x * y)
    return (min(ps), max(ps))


def rng(t, env=None, memo=None):
    """closed interval hull of a numeric term; `env` maps atom terms to intervals"""
    if memo is None:
        memo = {}
    k = id(t)
    if k in memo:
        return memo[k][1]
    r = _rng(t, env or {}, memo)
    memo[k] = (t, r)
    return r


def _rng(t, env, memo):
    if t in env:
        return env[t]
    n = _num(t)
    if n is not None:
        return (n, n)
    if not isinstance(t, tuple) or not t:
        return TOP
    tag = t[0]
    if tag == 'ite':
        a = rng(t[2], env, memo)
        b = rng(t[3], env, memo)
        return (min(a[0], b[0]), max(a[1], b[1]))
    if tag == 'bin':
        op = t[1]
        a = rng(t[2], env, memo)
        b = rng(t[3], env, memo)
        if op == 'Add':
            return (a[0] + b[0], a[1] + b[1])
        if op == 'Sub':
            return (a[0] - b[1], a[1] - b[0])
        if op == 'Mul':
            return _mul(a, b)
        if op == 'Div':
            if b[0] > 0 or b[1] < 0:
                return _mul(a, (1.0 / b[1], 1.0 / b[0]))
            return TOP
        if op == 'Rem':
            if b[0] == b[1] and b[0] > 0:
                return (-b[0], b[0])
        return TOP
    if tag == 'un' and t[1] == 'Neg':
        a = rng(t[2], env, memo)
        return (-a[1], -a[0])
    if tag == 'cast':
        return rng(t[2], env, memo)
    if tag == 'app':
        f = t[1]
        args = t[2]
        if f.endswith('TimeDelta::num_days') and len(args) == 1 and args[0][0] == 'app' and args[0][1].endswith('ops::Sub>::sub') \
                and len(args[0][2]) == 2 and args[0][2][0] == args[0][2][1]:
            return (0.0, 0.0)          # the number of days between a date and itself
        if f == 'acos':
            return (0.0, math.pi)
        if f == 'atan':
            a = rng(args[0], env, memo)
            return (math.atan(a[0]), math.atan(a[1]))
        if f == 'asin':
            return (-math.pi / 2, math.pi / 2)
        if f == 'atan2':
            return (-math.pi, math.pi)
        if f == 'cos':
            a = rng(args[0], env, memo)
            if -math.pi / 2 - 1e-12 <= a[0] and a[1] <= math.pi / 2 + 1e-12:
                lo = min(math.cos(a[0]), math.cos(a[1]))
                hi = 1.0 if a[0] <= 0 <= a[1] else max(math.cos(a[0]), math.cos(a[1]))
                return (max(0.0, lo), hi)
            return (-1.0, 1.0)
        if f == 'sin':
            a = rng(args[0], env, memo)
            if -math.pi / 2 - 1e-12 <= a[0] and a[1] <= math.pi / 2 + 1e-12:
                return (math.sin(a[0]), math.sin(a[1]))
            return (-1.0, 1.0)
        if f == 'tan':
            a = rng(args[0], env, memo)
            if -math.pi / 2 < a[0] and a[1] < math.pi / 2:
                return (math.tan(a[0]), math.tan(a[1]))
            return TOP
        if f == 'abs':
            a = rng(args[0], env, memo)
            if a[0] >= 0:
                return a
            if a[1] <= 0:
                return (-a[1], -a[0])
            return (0.0, max(-a[0], a[1]))
        if f == 'to_degrees':
            a = rng(args[0], env, memo)
            return (a[0] * 180.0 / math.pi, a[1] * 180.0 / math.pi)
        if f == 'to_radians':
            a = rng(args[0], env, memo)
            return (a[0] * math.pi / 180.0, a[1] * math.pi / 180.0)
        if f in ('floor', 'ceil', 'round', 'trunc'):
            a = rng(args[0], env, memo)
            return (math.floor(a[0]) if abs(a[0]) != INF else a[0], math.ceil(a[1]) if abs(a[1]) != INF else a[1])
        if f.endswith('cap_angle_360'):
            return (0.0, 360.0)
        if f.endswith('cap_angle_180'):
            return (0.0, 180.0)
        if f.endswith('cap_angle_1'):
            return (0.0, 1.0)
        if f.endswith('cap_angle_between_180'):
            return (-180.0, 180.0)
        if f.endswith('Datelike>::ordinal'):
            return (1.0, 366.0)
        if f.endswith('NonZero::<T>::get'):
            return (1.0, INF)
        return TOP
    return TOP


# ---------------------------------------------------------------------------
# parity under a mirror: given atoms that flip sign (odd), is the term even / odd / neither?
EVEN, ODD, ASYM, UNK = 'even', 'odd', 'asym', '?'
ODD_FUNS = {'sin', 'tan', 'asin', 'atan', 'to_radians', 'to_degrees', 'sinh', 'tanh', 'signum'}
EVEN_FUNS = {'cos', 'abs', 'cosh'}


def parity(t, odd_atoms, even_atoms=None, memo=None):
    """parity of t under x -> -x for every x in odd_atoms (all other atoms unchanged).
    'asym' is definite (a sum of an odd and an even non-zero part); '?' is unknown."""
    if memo is None:
        memo = {}
    k = id(t)
    if k in memo:
        return memo[k][1]
    r = _parity(t, odd_atoms, memo)
    memo[k] = (t, r)
    return r


def _parity(t, odd, memo):
    if t in odd:
        return ODD
    if not isinstance(t, tuple) or not t:
        return EVEN
    if not any(x in odd for x in subterms(t)):
        return EVEN             # untouched by the mirror
    if _num(t) is not None or t[0] == 'c':
        return EVEN
    tag = t[0]
    if tag in ('param', 'field', 'mapget', 'elem'):
        # an atom that is not mirrored - unless it contains a mirrored atom (then unknown)
        for x in subterms(t):
            if x in odd and x is not t:
                return UNK
        return EVEN
    if tag == 'bin':
        op = t[1]
        a = parity(t[2], odd, None, memo)
        b = parity(t[3], odd, None, memo)
        if UNK in (a, b):
            return UNK
        if op in ('Add', 'Sub'):
            if a == b:
                return a
            if ASYM in (a, b):
                return ASYM if a == b else UNK
            return ASYM
        if op in ('Mul', 'Div'):
            if ASYM in (a, b):
                return UNK
            return EVEN if a == b else ODD
        if op in ('Lt', 'Le', 'Gt', 'Ge', 'Eq', 'Ne'):
            return EVEN if (a == EVEN and b == EVEN) else UNK
        return UNK
    if tag == 'un':
        a = parity(t[2], odd, None, memo)
        return a
    if tag == 'cast':
        return parity(t[2], odd, None, memo)
    if tag == 'ite':
        c = parity(t[1], odd, None, memo)
        a = parity(t[2], odd, None, memo)
        b = parity(t[3], odd, None, memo)
        if c == EVEN and a == b:
            return a
        return UNK
    if tag == 'app':
        f = t[1]
        ps = [parity(x, odd, None, memo) for x in t[2]]
        if UNK in ps:
            return UNK
        if f in ('to_degrees', 'to_radians') and len(ps) == 1:
            return ps[0]            # linear: preserves even / odd / asym
        if f in ODD_FUNS and len(ps) == 1:
            return ps[0] if ps[0] in (EVEN, ODD) else UNK
        if f in EVEN_FUNS and len(ps) == 1:
            return EVEN if ps[0] in (EVEN, ODD) else UNK
        if f == 'atan2' and len(ps) == 2:
            if ps == [ODD, EVEN]:
                return ODD
            if ps == [EVEN, EVEN]:
                return EVEN
            if ps[0] == ODD and ps[1] in (ODD, ASYM):
                return ASYM
            if ps == [EVEN, ASYM]:
                return ASYM         # atan2(a, e + o) against atan2(a, e - o): neither equal nor opposite (o is not zero)
            return UNK
        if f == 'acos' and ps == [EVEN]:
            return EVEN
        if f == 'contains' and len(ps) == 2:
            return EVEN if ps[1] == EVEN and ps[0] == EVEN else (ASYM if ps[1] in (ODD, ASYM) and ps[0] == EVEN else UNK)
        if all(p == EVEN for p in ps):
            return EVEN
        return UNK
    if tag == 'enum':
        ps = {parity(x, odd, None, memo) for x in t[4]}
        return EVEN if ps <= {EVEN} else UNK
    return UNK


# ---------------------------------------------------------------------------
# monotonicity of a term in one atom (weak): 'inc', 'dec', 'const', '?'
INC, DEC, CONST = 'inc', 'dec', 'const'
_FLIP = {INC: DEC, DEC: INC, CONST: CONST, UNK: UNK}


def _comb(a, b):
    if a == CONST:
        return b
    if b == CONST:
        return a
    if a == b:
        return a
    return UNK


def _has(t, atom):
    for x in subterms(t):
        if x == atom:
            return True
    return False


def mono(t, atom, env=None, memo=None):
    """weak monotonicity of t as a function of `atom`; env: ranges of atoms for sign / branch decisions"""
    if memo is None:
        memo = {}
    k = id(t)
    if k in memo:
        return memo[k][1]
    r = _mono(t, atom, env or {}, memo)
    memo[k] = (t, r)
    return r


def _sign(t, env):
    lo, hi = rng(t, env)
    if lo > 0:
        return 1
    if hi < 0:
        return -1
    if lo >= 0:
        return 2        # non-negative
    if hi <= 0:
        return -2
    return 0


def _mono(t, atom, env, memo):
    if t == atom:
        return INC
    if not isinstance(t, tuple) or not t or not _has(t, atom):
        return CONST
    tag = t[0]
    if tag == 'bin':
        op = t[1]
        a = mono(t[2], atom, env, memo)
        b = mono(t[3], atom, env, memo)
        if op == 'Add':
            return _comb(a, b)
        if op == 'Sub':
            return _comb(a, _FLIP[b])
        if op == 'Mul':
            if b == CONST:
                s = _sign(t[3], env)
                return a if s > 0 else (_FLIP[a] if s < 0 else UNK)
            if a == CONST:
                s = _sign(t[2], env)
                return b if s > 0 else (_FLIP[b] if s < 0 else UNK)
            return UNK
        if op == 'Div':
            if b == CONST:
                s = _sign(t[3], env)
                return a if s > 0 else (_FLIP[a] if s < 0 else UNK)
            if a == CONST:
                # c / g(x): g must keep one strict sign
                sg = _sign(t[3], env)
                sc = _sign(t[2], env)
                if sg in (1, -1) and sc != 0:
                    r = _FLIP[b]
                    return r if sc > 0 else _FLIP[r]
                return UNK
            return UNK
        return UNK
    if tag == 'un' and t[1] == 'Neg':
        return _FLIP[mono(t[2], atom, env, memo)]
    if tag == 'cast':
        return mono(t[2], atom, env, memo)
    if tag == 'ite':
        if _has(t[1], atom):
            return UNK
        return _comb(mono(t[2], atom, env, memo), mono(t[3], atom, env, memo)) if \
            mono(t[2], atom, env, memo) == mono(t[3], atom, env, memo) else UNK
    if tag == 'app':
        f = t[1]
        args = t[2]
        if len(args) != 1:
            return UNK
        a = mono(args[0], atom, env, memo)
        lo, hi = rng(args[0], env)
        half = math.pi / 2 + 1e-12
        if f in ('to_radians', 'to_degrees', 'atan', 'asin', 'floor', 'ceil'):
            return a
        if f == 'acos':
            return _FLIP[a]
        if f == 'sin':
            if -half <= lo and hi <= half:
                return a
            return UNK
        if f == 'tan':
            if -half < lo and hi < half:
                return a
            return UNK
        if f == 'cos':
            if 0 <= lo and hi <= math.pi + 1e-12:
                return _FLIP[a]
            if -math.pi - 1e-12 <= lo and hi <= 0:
                return a
            return UNK
        if f == 'abs':
            if lo >= 0:
                return a
            if hi <= 0:
                return _FLIP[a]
            return UNK
        return UNK
    return UNK


# ---------------------------------------------------------------------------
# polynomial normal form over atoms (any non-arithmetic sub-term is an atom)
def poly(t, memo=None):
    """{monomial: coefficient} with monomial = sorted tuple of (atom repr id) - atoms are compared by term equality"""
    if memo is None:
        memo = {}
    k = id(t)
    if k in memo:
        return memo[k][1]
    r = _poly(t, memo)
    memo[k] = (t, r)
    return r


def _padd(a, b, s=1.0):
    out = dict(a)
    for m, c in b.items():
        out[m] = out.get(m, 0.0) + s * c
    return {m: c for m, c in out.items() if abs(c) > 1e-15}


def _pmul(a, b):
    out = {}
    for m1, c1 in a.items():
        for m2, c2 in b.items():
            m = tuple(sorted(m1 + m2, key=hash))
            out[m] = out.get(m, 0.0) + c1 * c2
    return {m: c for m, c in out.items() if abs(c) > 1e-15}


def _poly(t, memo):
    n = _num(t)
    if n is not None:
        return {(): n} if n != 0 else {}
    if isinstance(t, tuple) and t:
        if t[0] == 'bin':
            op = t[1]
            if op in ('Add', 'Sub'):
                return _padd(poly(t[2], memo), poly(t[3], memo), 1.0 if op == 'Add' else -1.0)
            if op == 'Mul':
                return _pmul(poly(t[2], memo), poly(t[3], memo))
            if op == 'Div':
                k = _num(t[3])
                if k is not None and k != 0:
                    return {m: c / k for m, c in poly(t[2], memo).items()}
        if t[0] == 'un' and t[1] == 'Neg':
            return {m: -c for m, c in poly(t[2], memo).items()}
    return {(t,): 1.0}


def poly_equal(a, b, tol=1e-9):
    for m in set(a) | set(b):
        if abs(a.get(m, 0.0) - b.get(m, 0.0)) > tol * max(1.0, abs(a.get(m, 0.0)), abs(b.get(m, 0.0))):
            return False
    return True


def show_poly(p, show):
    parts = []
    for m, c in sorted(p.items(), key=lambda kv: hash(kv[0])):
        parts.append(f'{c:+.6g}' + ''.join('*' + show(x, maxd=2)[:30] for x in m))
    return ' '.join(parts) or '0'



def ite_conds(t, out=None):
    out = [] if out is None else out
    for x in subterms(t):
        if x and x[0] == 'ite' and x[1] not in out:
            out.append(x[1])
    return out


def equiv_cases(a, b, max_conds=8):
    """True if a and b agree (structurally or as polynomials over their non-arithmetic atoms) under every assignment of the
    conditions of their ite sub-terms; False if some assignment separates them; None if there are too many conditions."""
    if a == b:
        return True
    from .engine import specialise
    import itertools
    conds = ite_conds(a)
    ite_conds(b, conds)
    # conditions nested inside other conditions' terms do not need separate treatment
    if len(conds) > max_conds:
        return None
    for bits in itertools.product([True, False], repeat=len(conds)):
        asm = dict(zip(conds, bits))
        sa, sb = specialise(a, asm), specialise(b, asm)
        if sa != sb and not poly_equal(poly(sa), poly(sb)):
            return False
    return True
