"""Small abstract domains evaluated on engine terms (DESIGN 2.2).

Every evaluation has an explicit unknown (None / '?') that never raises an
alarm by itself.
"""
import math
from .engine import is_const, cval
from .terms import subterms


# ---------------------------------------------------------------------------
# strict upper bounds  (used for the NaiveTime construction guard, R7.5)
def _num(t):
    if is_const(t) and isinstance(cval(t), (int, float)) and not isinstance(cval(t), bool):
        return float(cval(t))
    return None


def facts_from_cond(c, truth):
    """upper-bound facts {term: (bound, strict)} implied by condition c being `truth`"""
    out = {}
    if not (isinstance(c, tuple) and c and c[0] == 'bin'):
        return out
    op, a, b = c[1], c[2], c[3]
    kb = _num(b)
    ka = _num(a)
    if kb is not None:
        # a op kb
        if truth and op == 'Lt':
            out[a] = (kb, True)
        elif truth and op == 'Le':
            out[a] = (kb, False)
        elif not truth and op == 'Ge':
            out[a] = (kb, True)      # !(a >= k)  =>  a < k  (or NaN, which casts to 0)
        elif not truth and op == 'Gt':
            out[a] = (kb, False)
    if ka is not None:
        # ka op b
        if truth and op == 'Gt':
            out[b] = (ka, True)
        elif truth and op == 'Ge':
            out[b] = (ka, False)
        elif not truth and op == 'Le':
            out[b] = (ka, True)
        elif not truth and op == 'Lt':
            out[b] = (ka, False)
    return out


def upper_bound(t, facts=None):
    """(bound, strict) such that t < bound (strict) or t <= bound, for finite
    inputs, or None when no bound can be derived from the term's shape."""
    facts = facts or {}
    if t in facts:
        return facts[t]
    k = _num(t)
    if k is not None:
        return (k, False)
    if not isinstance(t, tuple) or not t:
        return None
    tag = t[0]
    if tag == 'ite':
        fa = dict(facts)
        fa.update(facts_from_cond(t[1], True))
        fb = dict(facts)
        fb.update(facts_from_cond(t[1], False))
        a = upper_bound(t[2], fa)
        b = upper_bound(t[3], fb)
        if a is None or b is None:
            return None
        if a[0] > b[0] or (a[0] == b[0] and not a[1]):
            return a
        return b
    if tag == 'bin' and t[1] == 'Rem':
        k = _num(t[3])
        if k is not None and k > 0:
            return (k, True)
        return None
    if tag == 'app' and t[1] == 'rem_euclid' and len(t[2]) == 2:
        k = _num(t[2][1])
        if k is not None and k > 0:
            return (k, True)
        return None
    if tag == 'bin' and t[1] == 'Mul':
        for x, y in ((t[2], t[3]), (t[3], t[2])):
            k = _num(y)
            if k is not None and k > 0 and is_fraction(x):
                return (k, True)
        return None
    if tag == 'cast':
        return upper_bound(t[2], facts)
    return None


def is_fraction(x):
    """x - floor(x): in [0, 1)"""
    return isinstance(x, tuple) and x and x[0] == 'bin' and x[1] == 'Sub' and \
        x[3] == ('app', 'floor', (x[2],))


# ---------------------------------------------------------------------------
# dependences
def atoms_of(t, is_atom):
    """set of atom terms occurring in t (conditions of ite terms included)"""
    out = set()
    for x in subterms(t):
        a = is_atom(x)
        if a is not None:
            out.add(a)
    return out


# ---------------------------------------------------------------------------
# value ranges (closed hull; unknown = (-inf, inf))
INF = float('inf')
TOP = (-INF, INF)


def _mul(a, b):
    ps = []
    for x in a:
        for y in b:
            if (x == 0 and abs(y) == INF) or (y == 0 and abs(x) == INF):
                ps.append(0.0)
            else:
                ps.append(x * y)
    return (min(ps), max(ps))


def rng(t, env=None, memo=None):
    """closed interval hull of a numeric term; `env` maps atom terms to intervals"""
    if memo is None:
        memo = {}
    k = id(t)
    if k in memo:
        return memo[k][1]
    r = _rng(t, env or {}, memo)
    memo[k] = (t, r)
    return r


def _rng(t, env, memo):
    if t in env:
        return env[t]
    n = _num(t)
    if n is not None:
        return (n, n)
    if not isinstance(t, tuple) or not t:
        return TOP
    tag = t[0]
    if tag == 'ite':
        a = rng(t[2], env, memo)
        b = rng(t[3], env, memo)
        return (min(a[0], b[0]), max(a[1], b[1]))
    if tag == 'bin':
        op = t[1]
        a = rng(t[2], env, memo)
        b = rng(t[3], env, memo)
        if op == 'Add':
            return (a[0] + b[0], a[1] + b[1])
        if op == 'Sub':
            return (a[0] - b[1], a[1] - b[0])
        if op == 'Mul':
            return _mul(a, b)
        if op == 'Div':
            if b[0] > 0 or b[1] < 0:
                return _mul(a, (1.0 / b[1], 1.0 / b[0]))
            return TOP
        if op == 'Rem':
            if b[0] == b[1] and b[0] > 0:
                return (-b[0], b[0])
        return TOP
    if tag == 'un' and t[1] == 'Neg':
        a = rng(t[2], env, memo)
        return (-a[1], -a[0])
    if tag == 'cast':
        return rng(t[2], env, memo)
    if tag == 'app':
        f = t[1]
        args = t[2]
        if f == 'acos':
            return (0.0, math.pi)
        if f == 'asin' or f == 'atan':
            return (-math.pi / 2, math.pi / 2)
        if f == 'atan2':
            return (-math.pi, math.pi)
        if f in ('sin', 'cos'):
            return (-1.0, 1.0)
        if f == 'abs':
            a = rng(args[0], env, memo)
            if a[0] >= 0:
                return a
            if a[1] <= 0:
                return (-a[1], -a[0])
            return (0.0, max(-a[0], a[1]))
        if f == 'to_degrees':
            a = rng(args[0], env, memo)
            return (a[0] * 180.0 / math.pi, a[1] * 180.0 / math.pi)
        if f == 'to_radians':
            a = rng(args[0], env, memo)
            return (a[0] * math.pi / 180.0, a[1] * math.pi / 180.0)
        if f in ('floor', 'ceil', 'round', 'trunc'):
            a = rng(args[0], env, memo)
            return (math.floor(a[0]) if abs(a[0]) != INF else a[0], math.ceil(a[1]) if abs(a[1]) != INF else a[1])
        if f.endswith('cap_angle_360'):
            return (0.0, 360.0)
        if f.endswith('cap_angle_180'):
            return (0.0, 180.0)
        if f.endswith('cap_angle_1'):
            return (0.0, 1.0)
        if f.endswith('cap_angle_between_180'):
            return (-180.0, 180.0)
        if f.endswith('Datelike>::ordinal'):
            return (1.0, 366.0)
        if f.endswith('NonZero::<T>::get'):
            return (1.0, INF)
        return TOP
    return TOP
