"""Small abstract domains evaluated on engine terms (DESIGN 2.2).

Every evaluation has an explicit unknown (None / '?') that never raises an
alarm by itself.
"""
import math
from .engine import is_const, cval
from .terms import subterms


# ---------------------------------------------------------------------------
# strict upper bounds  (used for the NaiveTime construction guard, R7.5)
def _num(t):
    if is_const(t) and isinstance(cval(t), (int, float)) and not isinstance(cval(t), bool):
        return float(cval(t))
    return None


def facts_from_cond(c, truth):
    """upper-bound facts {term: (bound, strict)} implied by condition c being `truth`"""
    out = {}
    if not (isinstance(c, tuple) and c and c[0] == 'bin'):
        return out
    op, a, b = c[1], c[2], c[3]
    kb = _num(b)
    ka = _num(a)
    if kb is not None:
        # a op kb
        if truth and op == 'Lt':
            out[a] = (kb, True)
        elif truth and op == 'Le':
            out[a] = (kb, False)
        elif not truth and op == 'Ge':
            out[a] = (kb, True)      # !(a >= k)  =>  a < k  (or NaN, which casts to 0)
        elif not truth and op == 'Gt':
            out[a] = (kb, False)
    if ka is not None:
        # ka op b
        if truth and op == 'Gt':
            out[b] = (ka, True)
        elif truth and op == 'Ge':
            out[b] = (ka, False)
        elif not truth and op == 'Le':
            out[b] = (ka, True)
        elif not truth and op == 'Lt':
            out[b] = (ka, False)
    return out


def upper_bound(t, facts=None):
    """(bound, strict) such that t < bound (strict) or t <= bound, for finite
    inputs, or None when no bound can be derived from the term's shape."""
    facts = facts or {}
    if t in facts:
        return facts[t]
    k = _num(t)
    if k is not None:
        return (k, False)
    if not isinstance(t, tuple) or not t:
        return None
    tag = t[0]
    if tag == 'ite':
        fa = dict(facts)
        fa.update(facts_from_cond(t[1], True))
        fb = dict(facts)
        fb.update(facts_from_cond(t[1], False))
        a = upper_bound(t[2], fa)
        b = upper_bound(t[3], fb)
        if a is None or b is None:
            return None
        if a[0] > b[0] or (a[0] == b[0] and not a[1]):
            return a
        return b
    if tag == 'bin' and t[1] == 'Rem':
        k = _num(t[3])
        if k is not None and k > 0:
            return (k, True)
        return None
    if tag == 'app' and t[1] == 'rem_euclid' and len(t[2]) == 2:
        k = _num(t[2][1])
        if k is not None and k > 0:
            return (k, True)
        return None
    if tag == 'bin' and t[1] == 'Mul':
        for x, y in ((t[2], t[3]), (t[3], t[2])):
            k = _num(y)
            if k is not None and k > 0 and is_fraction(x):
                return (k, True)
        return None
    if tag == 'cast':
        return upper_bound(t[2], facts)
    return None


def is_fraction(x):
    """x - floor(x): in [0, 1)"""
    return isinstance(x, tuple) and x and x[0] == 'bin' and x[1] == 'Sub' and \
        x[3] == ('app', 'floor', (x[2],))


# ---------------------------------------------------------------------------
# dependences
def atoms_of(t, is_atom):
    """set of atom terms occurring in t (conditions of ite terms included)"""
    out = set()
    for x in subterms(t):
        a = is_atom(x)
        if a is not None:
            out.add(a)
    return out


# ---------------------------------------------------------------------------
# value ranges (closed hull; unknown = (-inf, inf))
INF = float('inf')
TOP = (-INF, INF)


def _mul(a, b):
    ps = []
    for x in a:
        for y in b:
            if (x == 0 and abs(y) == INF) or (y == 0 and abs(x) == INF):
                ps.append(0.0)
            else:
                ps.append(x * y)
    return (min(ps), max(ps))


def rng(t, env=None, memo=None):
    """closed interval hull of a numeric term; `env` maps atom terms to intervals"""
    if memo is None:
        memo = {}
    k = id(t)
    if k in memo:
        return memo[k][1]
    r = _rng(t, env or {}, memo)
    memo[k] = (t, r)
    return r


def _rng(t, env, memo):
    if t in env:
        return env[t]
    n = _num(t)
    if n is not None:
        return (n, n)
    if not isinstance(t, tuple) or not t:
        return TOP
    tag = t[0]
    if tag == 'ite':
        a = rng(t[2], env, memo)
        b = rng(t[3], env, memo)
        return (min(a[0], b[0]), max(a[1], b[1]))
    if tag == 'bin':
        op = t[1]
        a = rng(t[2], env, memo)
        b = rng(t[3], env, memo)
        if op == 'Add':
            return (a[0] + b[0], a[1] + b[1])
        if op == 'Sub':
            return (a[0] - b[1], a[1] - b[0])
        if op == 'Mul':
            return _mul(a, b)
        if op == 'Div':
            if b[0] > 0 or b[1] < 0:
                return _mul(a, (1.0 / b[1], 1.0 / b[0]))
            return TOP
        if op == 'Rem':
            if b[0] == b[1] and b[0] > 0:
                return (-b[0], b[0])
        return TOP
    if tag == 'un' and t[1] == 'Neg':
        a = rng(t[2], env, memo)
        return (-a[1], -a[0])
    if tag == 'cast':
        return rng(t[2], env, memo)
    if tag == 'app':
        f = t[1]
        args = t[2]
        if f == 'acos':
            return (0.0, math.pi)
        if f == 'asin' or f == 'atan':
            return (-math.pi / 2, math.pi / 2)
        if f == 'atan2':
            return (-math.pi, math.pi)
        if f in ('sin', 'cos'):
            return (-1.0, 1.0)
        if f == 'abs':
            a = rng(args[0], env, memo)
            if a[0] >= 0:
                return a
            if a[1] <= 0:
                return (-a[1], -a[0])
            return (0.0, max(-a[0], a[1]))
        if f == 'to_degrees':
            a = rng(args[0], env, memo)
            return (a[0] * 180.0 / math.pi, a[1] * 180.0 / math.pi)
        if f == 'to_radians':
            a = rng(args[0], env, memo)
            return (a[0] * math.pi / 180.0, a[1] * math.pi / 180.0)
        if f in ('floor', 'ceil', 'round', 'trunc'):
            a = rng(args[0], env, memo)
            return (math.floor(a[0]) if abs(a[0]) != INF else a[0], math.ceil(a[1]) if abs(a[1]) != INF else a[1])
        if f.endswith('cap_angle_360'):
            return (0.0, 360.0)
        if f.endswith('cap_angle_180'):
            return (0.0, 180.0)
        if f.endswith('cap_angle_1'):
            return (0.0, 1.0)
        if f.endswith('cap_angle_between_180'):
            return (-180.0, 180.0)
        if f.endswith('Datelike>::ordinal'):
            return (1.0, 366.0)
        if f.endswith('NonZero::<T>::get'):
            return (1.0, INF)
        return TOP
    return TOP


# ---------------------------------------------------------------------------
# parity under a mirror: given atoms that flip sign (odd), is the term even / odd / neither?
EVEN, ODD, ASYM, UNK = 'even', 'odd', 'asym', '?'
ODD_FUNS = {'sin', 'tan', 'asin', 'atan', 'to_radians', 'to_degrees', 'sinh', 'tanh', 'signum'}
EVEN_FUNS = {'cos', 'abs', 'cosh'}


def parity(t, odd_atoms, even_atoms=None, memo=None):
    """parity of t under x -> -x for every x in odd_atoms (all other atoms unchanged).
    'asym' is definite (a sum of an odd and an even non-zero part); '?' is unknown."""
    if memo is None:
        memo = {}
    k = id(t)
    if k in memo:
        return memo[k][1]
    r = _parity(t, odd_atoms, memo)
    memo[k] = (t, r)
    return r


def _parity(t, odd, memo):
    if t in odd:
        return ODD
    if not isinstance(t, tuple) or not t:
        return EVEN
    if _num(t) is not None or t[0] == 'c':
        return EVEN
    tag = t[0]
    if tag in ('param', 'field', 'mapget', 'elem'):
        # an atom that is not mirrored - unless it contains a mirrored atom (then unknown)
        for x in subterms(t):
            if x in odd and x is not t:
                return UNK
        return EVEN
    if tag == 'bin':
        op = t[1]
        a = parity(t[2], odd, None, memo)
        b = parity(t[3], odd, None, memo)
        if UNK in (a, b):
            return UNK
        if op in ('Add', 'Sub'):
            if a == b:
                return a
            if ASYM in (a, b):
                return ASYM if a == b else UNK
            return ASYM
        if op in ('Mul', 'Div'):
            if ASYM in (a, b):
                return UNK
            return EVEN if a == b else ODD
        if op in ('Lt', 'Le', 'Gt', 'Ge', 'Eq', 'Ne'):
            return EVEN if (a == EVEN and b == EVEN) else UNK
        return UNK
    if tag == 'un':
        a = parity(t[2], odd, None, memo)
        return a
    if tag == 'cast':
        return parity(t[2], odd, None, memo)
    if tag == 'ite':
        c = parity(t[1], odd, None, memo)
        a = parity(t[2], odd, None, memo)
        b = parity(t[3], odd, None, memo)
        if c == EVEN and a == b:
            return a
        return UNK
    if tag == 'app':
        f = t[1]
        ps = [parity(x, odd, None, memo) for x in t[2]]
        if UNK in ps:
            return UNK
        if f in ('to_degrees', 'to_radians') and len(ps) == 1:
            return ps[0]            # linear: preserves even / odd / asym
        if f in ODD_FUNS and len(ps) == 1:
            return ps[0] if ps[0] in (EVEN, ODD) else UNK
        if f in EVEN_FUNS and len(ps) == 1:
            return EVEN if ps[0] in (EVEN, ODD) else UNK
        if f == 'atan2' and len(ps) == 2:
            if ps == [ODD, EVEN]:
                return ODD
            if ps == [EVEN, EVEN]:
                return EVEN
            if ps[0] == ODD and ps[1] in (ODD, ASYM):
                return ASYM
            return UNK
        if f == 'acos' and ps == [EVEN]:
            return EVEN
        if all(p == EVEN for p in ps):
            return EVEN
        return UNK
    if tag == 'enum':
        ps = {parity(x, odd, None, memo) for x in t[4]}
        return EVEN if ps <= {EVEN} else UNK
    return UNK
