"""Abstract models of the std items the crate uses (trusted base, DESIGN 3.5).

Each model: m(eng, st, fr, term, args, dest, target) -> value | DEFER.
"""
from .engine import (model, DEFER, PathEnd, Unmodelled, Fork, C, UNIT, TRUE, FALSE, cbool, is_const, cval,
                     mk_enum, OK, ERR, SOME, NONE, mk_ref, ite, BOOL_APPS, MODELS)

RES = 'std::result::Result'
OPT = 'std::option::Option'
CF = 'std::ops::ControlFlow'


def ptr_of(eng, st, v):
    v = eng.force(st, v)
    if isinstance(v, tuple) and v and v[0] == 'ref':
        return v[1], v[2]
    return ('S', v), ()


def deref(eng, st, v):
    r, p = ptr_of(eng, st, v)
    return eng.force(st, eng.load(st, r, p))


def variant_of(eng, st, v, adt):
    """-> (variant_name | None, forced value); forks on a free discriminant"""
    v = eng.force(st, v)
    if v[0] == 'enum':
        return v[2], v
    d = eng.decide_int(st, eng.discr_of(st, v, adt), None)
    if adt == RES:
        return ('Ok' if d == 0 else 'Err'), v
    if adt == OPT:
        return ('Some' if d == 1 else 'None'), v
    if adt == CF:
        return ('Continue' if d == 0 else 'Break'), v
    return None, v


def payload(eng, st, v, vname):
    return eng.project(st, eng.project(st, v, ('v', vname)), ('f', 0, '0'))


# ---------------------------------------------------------------- Result / Option
@model('std::result::Result::<T, E>::is_ok')
def _is_ok(eng, st, fr, t, args, dest, target):
    v = deref(eng, st, args[0])
    if v[0] == 'enum':
        return cbool(v[2] == 'Ok')
    return ('bin', 'Eq', eng.discr_of(st, v, RES), C('isize', 0))


@model('std::result::Result::<T, E>::is_err')
def _is_err(eng, st, fr, t, args, dest, target):
    v = deref(eng, st, args[0])
    if v[0] == 'enum':
        return cbool(v[2] == 'Err')
    return ('bin', 'Eq', eng.discr_of(st, v, RES), C('isize', 1))


@model('std::option::Option::<T>::is_some')
def _is_some(eng, st, fr, t, args, dest, target):
    v = deref(eng, st, args[0])
    if v[0] == 'enum':
        return cbool(v[2] == 'Some')
    return ('bin', 'Eq', eng.discr_of(st, v, OPT), C('isize', 1))


@model('std::option::Option::<T>::is_none')
def _is_none(eng, st, fr, t, args, dest, target):
    v = deref(eng, st, args[0])
    if v[0] == 'enum':
        return cbool(v[2] == 'None')
    return ('bin', 'Eq', eng.discr_of(st, v, OPT), C('isize', 0))


@model('std::result::Result::<T, E>::unwrap', 'std::result::Result::<T, E>::expect')
def _res_unwrap(eng, st, fr, t, args, dest, target):
    vn, v = variant_of(eng, st, args[0], RES)
    if vn == 'Ok':
        return payload(eng, st, v, 'Ok')
    raise PathEnd('panic', ('unwrap-on-Err', fr.body.path, t.get('span'), v if v[0] != 'enum' else None))


@model('std::result::Result::<T, E>::unwrap_err')
def _res_unwrap_err(eng, st, fr, t, args, dest, target):
    vn, v = variant_of(eng, st, args[0], RES)
    if vn == 'Err':
        return payload(eng, st, v, 'Err')
    raise PathEnd('panic', ('unwrap_err-on-Ok', fr.body.path, t.get('span')))


@model('std::option::Option::<T>::unwrap', 'std::option::Option::<T>::expect')
def _opt_unwrap(eng, st, fr, t, args, dest, target):
    vn, v = variant_of(eng, st, args[0], OPT)
    if vn == 'Some':
        return payload(eng, st, v, 'Some')
    raise PathEnd('panic', ('unwrap-on-None', fr.body.path, t.get('span'), v))


@model('std::result::Result::<T, E>::map')
def _res_map(eng, st, fr, t, args, dest, target):
    vn, v = variant_of(eng, st, args[0], RES)
    if vn == 'Ok':
        eng.call_callable(st, args[1], [payload(eng, st, v, 'Ok')], ('wrap', dest, target, OK))
        return DEFER
    return v if v[0] == 'enum' else ERR(payload(eng, st, v, 'Err'))


@model('std::result::Result::<T, E>::map_err')
def _res_map_err(eng, st, fr, t, args, dest, target):
    vn, v = variant_of(eng, st, args[0], RES)
    if vn == 'Err':
        eng.call_callable(st, args[1], [payload(eng, st, v, 'Err')], ('wrap', dest, target, ERR))
        return DEFER
    return v if v[0] == 'enum' else OK(payload(eng, st, v, 'Ok'))


@model('std::result::Result::<T, E>::or')
def _res_or(eng, st, fr, t, args, dest, target):
    vn, v = variant_of(eng, st, args[0], RES)
    if vn == 'Ok':
        return v if v[0] == 'enum' else OK(payload(eng, st, v, 'Ok'))
    return args[1]


@model('std::result::Result::<T, E>::and')
def _res_and(eng, st, fr, t, args, dest, target):
    vn, v = variant_of(eng, st, args[0], RES)
    if vn == 'Ok':
        return args[1]
    return v if v[0] == 'enum' else ERR(payload(eng, st, v, 'Err'))


@model('std::ops::Range::<Idx>::contains')
def _range_contains(eng, st, fr, t, args, dest, target):
    r = deref(eng, st, args[0])
    x = deref(eng, st, args[1])
    return ('app', 'std::ops::Range::<Idx>::contains', (eng.purify(st, r), eng.purify(st, x)))


def deep_eq(eng, st, a, b):
    """boolean term for the derived `==` of two values (enums / structs of scalars)"""
    a, b = eng.force(st, a), eng.force(st, b)
    if a[0] == 'enum' and b[0] == 'enum':
        if a[1] != b[1] or a[3] != b[3] or len(a[4]) != len(b[4]):
            return FALSE
        out = TRUE
        for x, y in zip(reversed(a[4]), reversed(b[4])):
            c = deep_eq(eng, st, x, y)
            out = c if out == TRUE else ite(c, out, FALSE)
        return out
    if is_const(a) and is_const(b):
        return TRUE if cval(a) == cval(b) else FALSE
    return eng.binop(st, 'Eq', a, b)


@model('core::slice::<impl [T]>::contains', 'std::slice::<impl [T]>::contains')
def _slice_contains(eng, st, fr, t, args, dest, target):
    seq = deref(eng, st, args[0])
    x = deref(eng, st, args[1])
    if seq[0] not in ('array', 'vec'):
        return ('app', 'slice_contains', (eng.purify(st, seq), eng.purify(st, x)))
    xv = eng.force(st, x)
    items = [eng.force(st, e) for e in seq[1]]
    if items and all(e[0] == 'enum' for e in items) and xv[0] != 'enum':
        # decide the variant of the needle first (forks over the variants of its type)
        adt = items[0][1]
        vn, xv = variant_of_adt(eng, st, xv, adt)
    out = FALSE
    for e in reversed(items):
        c = deep_eq(eng, st, e, xv)
        out = c if out == FALSE else ite(c, TRUE, out)
    return out


def variant_of_adt(eng, st, v, adt):
    """concrete-variant view of a value of a local enum type (forks on a free discriminant)"""
    v = eng.force(st, v)
    if v[0] == 'enum':
        return v[2], v
    a = eng.facts.adts.get(adt)
    if not a:
        raise Unmodelled('variant of an unknown type')
    d = eng.decide_int(st, eng.discr_of(st, v, adt), [int(x['discr']) for x in a['variants']])
    for i, var in enumerate(a['variants']):
        if int(var['discr']) == d:
            fields = tuple(('field', ('as', eng.purify(st, v), var['name']), f.get('name') or str(j)) for j, f in enumerate(var['fields']))
            return var['name'], mk_enum(adt, var['name'], i, fields)
    raise Unmodelled('discriminant without a variant')


@model('std::result::Result::<T, E>::and_then')
def _res_and_then(eng, st, fr, t, args, dest, target):
    vn, v = variant_of(eng, st, args[0], RES)
    if vn == 'Ok':
        eng.call_callable(st, args[1], [payload(eng, st, v, 'Ok')], ('wrap', dest, target, lambda x: x))
        return DEFER
    return v if v[0] == 'enum' else ERR(payload(eng, st, v, 'Err'))


@model('std::option::Option::<T>::and_then')
def _opt_and_then(eng, st, fr, t, args, dest, target):
    vn, v = variant_of(eng, st, args[0], OPT)
    if vn == 'Some':
        eng.call_callable(st, args[1], [payload(eng, st, v, 'Some')], ('wrap', dest, target, lambda x: x))
        return DEFER
    return NONE


@model('std::option::Option::<&T>::copied', 'std::option::Option::<&T>::cloned', 'std::option::Option::<&mut T>::copied',
       'std::option::Option::<&mut T>::cloned')
def _opt_copied(eng, st, fr, t, args, dest, target):
    vn, v = variant_of(eng, st, args[0], OPT)
    if vn != 'Some':
        return NONE
    pv = eng.force(st, payload(eng, st, v, 'Some'))
    n = 0
    while isinstance(pv, tuple) and pv and pv[0] == 'ref' and n < 3:
        pv = eng.load(st, pv[1], pv[2])
        n += 1
    return SOME(pv)


def _checked(op):
    def m(eng, st, fr, t, args, dest, target):
        a, b = eng.force(st, args[0]), eng.force(st, args[1])
        ty = (t['callee'].get('decl') or '')
        unsigned = '<impl u' in ty
        if is_const(a) and is_const(b) and isinstance(cval(a), int) and isinstance(cval(b), int):
            r = cval(a) - cval(b) if op == 'Sub' else cval(a) + cval(b)
            if unsigned and r < 0:
                return NONE
            return SOME(C(a[1], r))
        r = eng.binop(st, op, a, b)
        if unsigned and op == 'Sub':
            return ite(('bin', 'Ge', a, b), SOME(r), NONE)
        return SOME(r)          # overflow of a wide integer is not modelled
    return m


def _saturating(op):
    def m(eng, st, fr, t, args, dest, target):
        a, b = eng.force(st, args[0]), eng.force(st, args[1])
        unsigned = '<impl u' in (t['callee'].get('decl') or '')
        r = eng.binop(st, op, a, b)
        if unsigned and op == 'Sub':
            if is_const(a) and is_const(b) and isinstance(cval(a), int) and isinstance(cval(b), int):
                return C(a[1], max(0, cval(a) - cval(b)))
            return ite(eng.binop(st, 'Ge', a, b), r, C(a[1] if is_const(a) else 'usize', 0))
        return r          # saturation at the type's maximum is not modelled (magnitudes here are far below it)
    return m


import re as _re3
for _w in ('u8', 'u16', 'u32', 'u64', 'usize', 'i8', 'i16', 'i32', 'i64', 'isize'):
    for _pre in ('core', 'std'):
        MODELS[f'{_pre}::num::<impl {_w}>::saturating_sub'] = _saturating('Sub')
        MODELS[f'{_pre}::num::<impl {_w}>::saturating_add'] = _saturating('Add')
for _w in ('u8', 'u16', 'u32', 'u64', 'usize', 'i8', 'i16', 'i32', 'i64', 'isize'):
    MODELS[f'core::num::<impl {_w}>::checked_sub'] = _checked('Sub')
    MODELS[f'std::num::<impl {_w}>::checked_sub'] = _checked('Sub')
    MODELS[f'core::num::<impl {_w}>::checked_add'] = _checked('Add')
    MODELS[f'std::num::<impl {_w}>::checked_add'] = _checked('Add')


@model('core::slice::<impl [T]>::get', 'std::slice::<impl [T]>::get')
def _slice_get(eng, st, fr, t, args, dest, target):
    r, p = ptr_of(eng, st, args[0])
    seq = eng.force(st, eng.load(st, r, p))
    idx = eng.force(st, args[1])
    if seq[0] in ('array', 'vec') and is_const(idx) and isinstance(cval(idx), int):
        i = cval(idx)
        if 0 <= i < len(seq[1]):
            return SOME(mk_ref(r, p + (('idx', C('usize', i)),)))
        return NONE
    if seq[0] in ('array', 'vec'):
        n = len(seq[1])
        return ite(('bin', 'Lt', idx, C('usize', n)), SOME(('elem', seq, idx)), NONE)
    return ('app', 'slice_get', (eng.purify(st, seq), eng.purify(st, idx)))


@model('std::option::Option::<T>::map')
def _opt_map(eng, st, fr, t, args, dest, target):
    vn, v = variant_of(eng, st, args[0], OPT)
    if vn == 'Some':
        eng.call_callable(st, args[1], [payload(eng, st, v, 'Some')], ('wrap', dest, target, SOME))
        return DEFER
    return NONE


@model('std::result::Result::<T, E>::unwrap_or_else')
def _res_unwrap_or_else(eng, st, fr, t, args, dest, target):
    vn, v = variant_of(eng, st, args[0], RES)
    if vn == 'Ok':
        return payload(eng, st, v, 'Ok')
    eng.call_callable(st, args[1], [payload(eng, st, v, 'Err')], ('wrap', dest, target, lambda x: x))
    return DEFER


@model('std::result::Result::<T, E>::map_or')
def _res_map_or(eng, st, fr, t, args, dest, target):
    vn, v = variant_of(eng, st, args[0], RES)
    if vn == 'Ok':
        eng.call_callable(st, args[2], [payload(eng, st, v, 'Ok')], ('wrap', dest, target, lambda x: x))
        return DEFER
    return args[1]


@model('std::result::Result::<T, E>::is_ok_and')
def _res_is_ok_and(eng, st, fr, t, args, dest, target):
    vn, v = variant_of(eng, st, args[0], RES)
    if vn == 'Ok':
        eng.call_callable(st, args[1], [payload(eng, st, v, 'Ok')], ('wrap', dest, target, lambda x: x))
        return DEFER
    return FALSE


@model('std::result::Result::<T, E>::unwrap_or')
def _res_unwrap_or(eng, st, fr, t, args, dest, target):
    vn, v = variant_of(eng, st, args[0], RES)
    if vn == 'Ok':
        return payload(eng, st, v, 'Ok')
    return args[1]


@model('std::result::Result::<T, E>::unwrap_or_default')
def _res_unwrap_or_default(eng, st, fr, t, args, dest, target):
    vn, v = variant_of(eng, st, args[0], RES)
    if vn == 'Ok':
        return payload(eng, st, v, 'Ok')
    return ('app', 'default', ())


@model('std::option::Option::<T>::unwrap_or')
def _opt_unwrap_or(eng, st, fr, t, args, dest, target):
    vn, v = variant_of(eng, st, args[0], OPT)
    if vn == 'Some':
        return payload(eng, st, v, 'Some')
    return args[1]


@model('std::result::Result::<T, E>::err')
def _res_err(eng, st, fr, t, args, dest, target):
    vn, v = variant_of(eng, st, args[0], RES)
    if vn == 'Err':
        return SOME(payload(eng, st, v, 'Err'))
    return NONE


@model('std::result::Result::<T, E>::ok')
def _res_ok(eng, st, fr, t, args, dest, target):
    vn, v = variant_of(eng, st, args[0], RES)
    if vn == 'Ok':
        return SOME(payload(eng, st, v, 'Ok'))
    return NONE


def _as_ref(adt, names):
    def m(eng, st, fr, t, args, dest, target):
        r, p = ptr_of(eng, st, args[0])
        v = eng.force(st, eng.load(st, r, p))
        vn, v = variant_of(eng, st, v, adt)
        idx = names.index(vn)
        if adt == OPT and vn == 'None':
            return NONE
        inner = mk_ref(r, p + (('v', vn), ('f', 0, '0')))
        return mk_enum(adt, vn, idx, (inner,))
    return m


MODELS['std::result::Result::<T, E>::as_ref'] = _as_ref(RES, ['Ok', 'Err'])
MODELS['std::result::Result::<T, E>::as_mut'] = _as_ref(RES, ['Ok', 'Err'])
MODELS['std::option::Option::<T>::as_ref'] = _as_ref(OPT, ['None', 'Some'])
MODELS['std::option::Option::<T>::as_mut'] = _as_ref(OPT, ['None', 'Some'])


@model('<std::result::Result<T, E> as std::ops::Try>::branch')
def _try_branch(eng, st, fr, t, args, dest, target):
    vn, v = variant_of(eng, st, args[0], RES)
    if vn == 'Ok':
        return mk_enum(CF, 'Continue', 0, (payload(eng, st, v, 'Ok'),))
    return mk_enum(CF, 'Break', 1, (ERR(payload(eng, st, v, 'Err')),))


@model('<std::result::Result<T, F> as std::ops::FromResidual<std::result::Result<std::convert::Infallible, E>>>::from_residual')
def _from_residual(eng, st, fr, t, args, dest, target):
    v = eng.force(st, args[0])
    if v[0] == 'enum' and v[2] == 'Err':
        return ERR(('app', 'from', (v[4][0],)))
    return ERR(('app', 'from', (('as', v, 'Err'),)))


# ------------------------------------------------------------------- maps
def as_map(eng, st, v):
    v = eng.force(st, v)
    if isinstance(v, tuple) and v[0] == 'map':
        return v
    return ('map', v, ())


def key_val(eng, st, k):
    """keys are passed by reference for lookups"""
    k = eng.force(st, k)
    n = 0
    while isinstance(k, tuple) and k and k[0] == 'ref' and n < 4:
        k = eng.force(st, eng.load(st, k[1], k[2]))
        n += 1
    return k


def map_lookup(m, k):
    for kk, vv in m[2]:
        if kk == k:
            return True, vv
    return False, None


def map_put(m, k, v):
    items = [(kk, vv) for kk, vv in m[2] if kk != k]
    items.append((k, v))
    items.sort(key=lambda kv: repr(kv[0]))
    return ('map', m[1], tuple(items))


@model('std::collections::HashMap::<K, V>::new', 'std::collections::BTreeMap::<K, V>::new',
       'std::collections::HashMap::<K, V>::with_capacity')
def _map_new(eng, st, fr, t, args, dest, target):
    return ('map', None, ())


@model('std::collections::HashMap::<K, V, S, A>::insert', 'std::collections::BTreeMap::<K, V, A>::insert')
def _map_insert(eng, st, fr, t, args, dest, target):
    r, p = ptr_of(eng, st, args[0])
    m = as_map(eng, st, eng.load(st, r, p))
    k = eng.force(st, args[1])
    found, old = map_lookup(m, k)
    eng.store(st, r, p, map_put(m, k, args[2]))
    h = eng.hooks.get('map_insert')
    if h:
        h(eng, st, fr, t, (r, p), k, args[2])
    if found:
        return SOME(old)
    if m[1] is None:
        return NONE
    return ('app', 'map_insert_old', (m[1], k))


@model('<std::collections::HashMap<K, V, S, A> as std::ops::Index<&Q>>::index',
       '<std::collections::BTreeMap<K, V, A> as std::ops::Index<&Q>>::index')
def _map_index(eng, st, fr, t, args, dest, target):
    r, p = ptr_of(eng, st, args[0])
    k = key_val(eng, st, args[1])
    m = eng.force(st, eng.load(st, r, p))
    eng.event(st, 'map-index', key=k, concrete=(m[0] == 'map' and m[1] is None), map=map_origin(m), fn=fr.body.path,
              span=t.get('span'))
    if m[0] == 'map':
        found, _ = map_lookup(m, k)
        if not found and m[1] is None:
            raise PathEnd('panic', ('missing-key', k, fr.body.path, t.get('span')))
    return mk_ref(r, p + (('key', k),))


def symbolic_key(k):
    return isinstance(k, tuple) and k and k[0] not in ('enum', 'c')


def map_origin(m):
    if m[0] == 'map':
        return m[1] if m[1] is not None else 'concrete'
    return m


@model('std::collections::HashMap::<K, V, S, A>::get_mut', 'std::collections::HashMap::<K, V, S, A>::get',
       'std::collections::BTreeMap::<K, V, A>::get', 'std::collections::BTreeMap::<K, V, A>::get_mut')
def _map_get(eng, st, fr, t, args, dest, target):
    r, p = ptr_of(eng, st, args[0])
    k = key_val(eng, st, args[1])
    m = eng.force(st, eng.load(st, r, p))
    if m[0] == 'map':
        found, _ = map_lookup(m, k)
        if found:
            return SOME(mk_ref(r, p + (('key', k),)))
        if m[1] is None:
            return NONE
        base = m[1]
    else:
        base = m
    # symbolic map: presence is an assumption (DESIGN 3.5, checked by R7.2)
    eng.event(st, 'assume-key', key=k, map=base, fn=fr.body.path, span=t.get('span'))
    return SOME(mk_ref(r, p + (('key', k),)))


@model('std::collections::HashMap::<K, V, S, A>::contains_key', 'std::collections::BTreeMap::<K, V, A>::contains_key')
def _map_contains(eng, st, fr, t, args, dest, target):
    k = key_val(eng, st, args[1])
    m = deref(eng, st, args[0])
    if m[0] == 'map':
        found, _ = map_lookup(m, k)
        if found:
            return TRUE
        if m[1] is None:
            return FALSE
    return ('app', 'contains_key', (m, k))


@model('std::collections::HashMap::<K, V, S, A>::is_empty', 'std::collections::BTreeMap::<K, V, A>::is_empty')
def _map_is_empty(eng, st, fr, t, args, dest, target):
    m = deref(eng, st, args[0])
    if m[0] == 'map' and m[1] is None:
        return cbool(len(m[2]) == 0)
    if m[0] == 'map' and m[2]:
        return FALSE
    return ('app', 'is_empty', (m,))


@model('std::collections::HashMap::<K, V, S, A>::len', 'std::collections::BTreeMap::<K, V, A>::len')
def _map_len(eng, st, fr, t, args, dest, target):
    m = deref(eng, st, args[0])
    if m[0] == 'map' and m[1] is None:
        return C('usize', len(m[2]))
    return ('app', 'len', (m,))


@model('<std::collections::HashMap<K, V, S, A> as std::clone::Clone>::clone',
       '<std::collections::BTreeMap<K, V, A> as std::clone::Clone>::clone')
def _map_clone(eng, st, fr, t, args, dest, target):
    return deref(eng, st, args[0])


@model('std::collections::HashMap::<K, V, S, A>::iter', 'std::collections::BTreeMap::<K, V, A>::iter',
       'std::collections::HashMap::<K, V, S, A>::iter_mut', 'std::collections::BTreeMap::<K, V, A>::iter_mut')
def _map_iter(eng, st, fr, t, args, dest, target):
    r, p = ptr_of(eng, st, args[0])
    return ('iter', 'map', mk_ref(r, p))


@model('std::collections::BTreeMap::<K, V, A>::append')
def _map_append(eng, st, fr, t, args, dest, target):
    r, p = ptr_of(eng, st, args[0])
    r2, p2 = ptr_of(eng, st, args[1])
    a = eng.force(st, eng.load(st, r, p))
    b = eng.force(st, eng.load(st, r2, p2))
    lid = eng.enclosing_loop(fr)
    h = eng.hooks.get('map_append')
    if h:
        h(eng, st, fr, t, a, b)
    if lid is not None:
        if not (a[0] == 'mapsum' and a[2] == lid and a[3] == b):
            eng.store(st, r, p, ('mapsum', a, lid, b))
        eng.store(st, r2, p2, ('map', None, ()))
        return UNIT
    eng.store(st, r, p, ('app', 'map_append', (a, b)))
    eng.store(st, r2, p2, ('map', None, ()))
    return UNIT


def drive_items(eng, st, m):
    """(key pointer, value pointer) for every entry of a concrete map held at pointer m"""
    r, p = ptr_of(eng, st, m)
    mv = eng.force(st, eng.load(st, r, p))
    if not (mv[0] == 'map' and mv[1] is None):
        return None
    out = []
    for kk, _ in mv[2]:
        kr = eng.temp(st, kk)
        out.append((mk_ref(kr, ()), mk_ref(r, p + (('key', kk),))))
    return out


@model('<std::collections::HashMap<K, V, S> as std::iter::FromIterator<(K, V)>>::from_iter',
       '<std::collections::BTreeMap<K, V> as std::iter::FromIterator<(K, V)>>::from_iter')
def _from_iter(eng, st, fr, t, args, dest, target):
    it = eng.force(st, args[0])
    if it[0] == 'iter' and it[1] == 'mapped' and it[2][0] == 'iter' and it[2][1] == 'map':
        items = drive_items(eng, st, it[2][2])
        if items is not None:
            f = it[3]
            acc = ('map', None, ())

            def step(st, fr2, dest, target, rv, items=items, i=0, acc=acc):
                pass
            return _drive_from_iter(eng, st, fr, dest, target, f, items, 0, acc)
    return ('app', 'from_iter', (eng.purify(st, it),))


def _drive_from_iter(eng, st, fr, dest, target, f, items, i, acc):
    if i >= len(items):
        eng.finish_call(st, st.frames[-1], dest, target, acc)
        return DEFER
    kp, vp = items[i]

    def cont(st, fr2, dest, target, rv, i=i, acc=acc):
        rv = eng.force(st, rv)
        if rv[0] == 'tuple' and len(rv[1]) == 2:
            k2 = eng.force(st, rv[1][0])
            acc2 = map_put(acc, k2, rv[1][1])
            h = eng.hooks.get('from_iter_item')
            if h:
                h(eng, st, items[i], k2, rv[1][1])
        else:
            raise Unmodelled('from_iter item is not a pair')
        _drive_from_iter(eng, st, fr2, dest, target, f, items, i + 1, acc2)
    eng.call_callable(st, f, [('tuple', (kp, vp))], ('seq', dest, target, cont))
    return DEFER


# ------------------------------------------------------------------ iterators
@model('<I as std::iter::IntoIterator>::into_iter')
def _into_iter_id(eng, st, fr, t, args, dest, target):
    return args[0]


@model('<std::vec::Vec<T, A> as std::iter::IntoIterator>::into_iter')
def _vec_into_iter(eng, st, fr, t, args, dest, target):
    return ('iter', 'val', eng.force(st, args[0]))


@model('std::array::<impl std::iter::IntoIterator for [T; N]>::into_iter', 'core::array::<impl std::iter::IntoIterator for [T; N]>::into_iter',
       'std::array::iter::<impl std::iter::IntoIterator for [T; N]>::into_iter', 'core::array::iter::<impl std::iter::IntoIterator for [T; N]>::into_iter')
def _array_into_iter(eng, st, fr, t, args, dest, target):
    return ('iter', 'val', eng.force(st, args[0]))


@model('std::array::<impl [T; N]>::each_ref', 'core::array::<impl [T; N]>::each_ref')
def _array_each_ref(eng, st, fr, t, args, dest, target):
    r, p = ptr_of(eng, st, args[0])
    v = eng.force(st, eng.load(st, r, p))
    if v[0] == 'array':
        return ('array', tuple(mk_ref(r, p + (('idx', C('usize', i)),)) for i in range(len(v[1]))))
    return ('app', 'each_ref', (eng.purify(st, v),))


@model('std::array::<impl [T; N]>::map', 'core::array::<impl [T; N]>::map')
def _array_map(eng, st, fr, t, args, dest, target):
    arr = eng.force(st, args[0])
    f = args[1]
    if arr[0] == 'array':
        rroot = eng.temp(st, ('vec', ()))

        def on_item(st, v):
            st.mem[rroot] = ('vec', st.mem[rroot][1] + (v,))
            return None
        return run_pipeline(eng, st, dest, target, list(arr[1]), [f], on_item, lambda st_: ('array', st_.mem[rroot][1]))
    # symbolic array: the closure is applied to one generic element
    lid = ('array_map', fr.body.path, fr.block)
    by_ref = arr[0] == 'app' and arr[1] == 'each_ref'
    src = arr[2][0] if by_ref else eng.purify(st, arr)
    el = ('iterval', lid, ('iter', 'val', src))
    if by_ref:
        el = mk_ref(eng.temp(st, el), ())

    def cont(st, fr2, dest_, target_, rv):
        eng.finish_call(st, fr2, dest, target, ('app', 'array_map', (src, eng.purify(st, rv))))
    eng.call_callable(st, f, [el], ('seq', dest, target, cont))
    return DEFER


@model('core::slice::<impl [T]>::iter', 'std::slice::<impl [T]>::iter',
       "core::slice::iter::<impl std::iter::IntoIterator for &'a [T]>::into_iter",
       "std::slice::iter::<impl std::iter::IntoIterator for &'a [T]>::into_iter")
def _slice_iter(eng, st, fr, t, args, dest, target):
    r, p = ptr_of(eng, st, args[0])
    return ('iter', 'seq', mk_ref(r, p))


@model('std::iter::Iterator::map')
def _iter_map(eng, st, fr, t, args, dest, target):
    return ('iter', 'mapped', eng.force(st, args[0]), args[1])


@model('std::iter::Iterator::enumerate')
def _iter_enum(eng, st, fr, t, args, dest, target):
    return ('iter', 'enumerate', eng.force(st, args[0]))


@model('std::iter::Iterator::zip')
def _iter_zip(eng, st, fr, t, args, dest, target):
    a = eng.force(st, args[0])
    b = eng.force(st, args[1])
    if not (isinstance(b, tuple) and b and b[0] == 'iter'):
        # IntoIterator argument: arrays / vecs by value, slices and collections by reference
        if b[0] in ('array', 'vec'):
            b = ('iter', 'val', b)
        elif b[0] == 'ref':
            b = ('iter', 'seq', b)
    return ('iter', 'zip', a, b)


@model('std::iter::Iterator::filter_map')
def _iter_filter_map(eng, st, fr, t, args, dest, target):
    return ('iter', 'op', eng.force(st, args[0]), 'filter_map', args[1])


@model('std::iter::Iterator::flat_map')
def _iter_flat_map(eng, st, fr, t, args, dest, target):
    return ('iter', 'op', eng.force(st, args[0]), 'flat_map', args[1])


@model('std::iter::Iterator::copied', 'std::iter::Iterator::cloned')
def _iter_copied(eng, st, fr, t, args, dest, target):
    return ('iter', 'op', eng.force(st, args[0]), 'copied', None)


@model('std::iter::Iterator::for_each')
def _iter_for_each(eng, st, fr, t, args, dest, target):
    items, fns, base = iter_plan(eng, st, args[0])
    if items is None:
        return _opaque(eng, st, t, args)
    return run_pipeline(eng, st, dest, target, items, fns + [args[1]], lambda st, v: None, lambda: UNIT)


@model('std::iter::Iterator::find', 'std::iter::Iterator::position')
def _iter_find(eng, st, fr, t, args, dest, target):
    r, p = ptr_of(eng, st, args[0])
    itv = eng.force(st, eng.load(st, r, p))
    items, fns, base = iter_plan(eng, st, itv)
    if items is None:
        return _opaque(eng, st, t, args)
    is_pos = t['callee']['decl'].endswith('position')
    counter = [0]
    # the predicate is the last stage; on_item sees the kept item
    if is_pos:
        idx_root = eng.temp(st, C('usize', 0))

        def pred_stage_pos(st, val):
            return None
        # position: evaluate predicate per item, count items
        def next_pos(st, i):
            if i >= len(items):
                eng.finish_call(st, st.frames[-1], dest, target, NONE)
                return

            def contp(st, fr2, dest_, target_, rv, i=i):
                if eng.decide(st, rv):
                    eng.finish_call(st, fr2, dest, target, SOME(C('usize', i)))
                else:
                    next_pos(st, i + 1)
            if fns:
                raise Unmodelled('position after adaptors')
            eng.call_callable(st, args[1], [items[i]], ('seq', dest, target, contp))
        next_pos(st, 0)
        return DEFER
    return run_pipeline(eng, st, dest, target, items, fns + [('filter', args[1])], lambda st, v: (SOME(v),), lambda: NONE)


@model('std::iter::Iterator::count')
def _iter_count(eng, st, fr, t, args, dest, target):
    items, fns, base = iter_plan(eng, st, args[0])
    if items is None:
        return ('app', 'iter_count', (eng.purify(st, eng.force(st, args[0])),))
    if not any(isinstance(f, tuple) and len(f) == 2 and f[0] in ('filter', 'filter_map', 'flat_map') for f in fns):
        return C('usize', len(items))
    croot = eng.temp(st, C('usize', 0))

    def on_item(st, v):
        st.mem[croot] = C('usize', cval(st.mem[croot]) + 1)
        return None
    return run_pipeline(eng, st, dest, target, items, fns, on_item, lambda st_: st_.mem[croot])


@model('std::iter::Iterator::last')
def _iter_last(eng, st, fr, t, args, dest, target):
    items, fns, base = iter_plan(eng, st, args[0])
    if items is None:
        return _opaque(eng, st, t, args)
    lroot = eng.temp(st, NONE)

    def on_item(st, v):
        st.mem[lroot] = SOME(v)
        return None
    return run_pipeline(eng, st, dest, target, items, fns, on_item, lambda st_: st_.mem[lroot])


@model('std::iter::once')
def _iter_once(eng, st, fr, t, args, dest, target):
    return ('iter', 'val', ('vec', (args[0],)))


@model('std::iter::Iterator::chain')
def _iter_chain(eng, st, fr, t, args, dest, target):
    ia, fa, _ = iter_plan(eng, st, args[0])
    b = eng.force(st, args[1])
    if b[0] in ('array', 'vec'):
        b = ('iter', 'val', b)
    ib, fb, _ = iter_plan(eng, st, b)
    if ia is None or ib is None or fa or fb:
        return _opaque(eng, st, t, args)
    return ('iter', 'val', ('vec', tuple(ia) + tuple(ib)))


@model('std::iter::from_fn')
def _iter_from_fn(eng, st, fr, t, args, dest, target):
    return ('iter', 'from_fn', args[0])


EXTEND_UNROLL = 4


def _extend(eng, st, fr, t, args, dest, target):
    """Extend::extend(&mut collection, iterable) for Vec and maps"""
    r, p = ptr_of(eng, st, args[0])
    coll = eng.force(st, eng.load(st, r, p))
    it = eng.force(st, args[1])
    if it[0] in ('vec', 'array'):
        it = ('iter', 'val', it)
    is_map = coll[0] in ('map', 'mapsum')

    def add(st, v):
        cur = eng.force(st, eng.load(st, r, p))
        if is_map:
            kv = eng.force(st, v)
            if kv[0] != 'tuple' or len(kv[1]) != 2:
                raise Unmodelled('extend: item is not a pair')
            k = eng.force(st, kv[1][0])
            h = eng.hooks.get('map_insert')
            if h:
                h(eng, st, st.frames[-1], t, (r, p), k, kv[1][1])
            eng.store(st, r, p, map_put(as_map(eng, st, cur), k, kv[1][1]))
        else:
            h = eng.hooks.get('vec_push')
            if h:
                h(eng, st, st.frames[-1], t, (r, p), v)
            if cur[0] == 'vec':
                eng.store(st, r, p, ('vec', cur[1] + (v,)))
            else:
                eng.store(st, r, p, ('vecsum', cur, None, v))

    if it[0] == 'iter' and it[1] == 'from_fn':
        # the generator closure is called until it returns None; the first calls are followed explicitly
        f = it[2]
        fref = mk_ref(eng.temp(st, f), ()) if not (isinstance(f, tuple) and f and f[0] == 'ref') else f

        def step(st, i):
            def cont(st, fr2, dest_, target_, rv, i=i):
                vn, v = variant_of(eng, st, rv, OPT)
                if vn != 'Some':
                    eng.finish_call(st, fr2, dest, target, UNIT)
                    return
                add(st, payload(eng, st, v, 'Some'))
                if i + 1 >= EXTEND_UNROLL:
                    eng.incomplete.append(('extend-unroll', fr.body.path, fr.block))
                    eng.event(st, 'incomplete', what='generator followed for its first calls only', fn=fr.body.path)
                    eng.finish_call(st, fr2, dest, target, UNIT)
                    return
                step(st, i + 1)
            eng.call_callable(st, fref, [], ('seq', dest, target, cont))
        step(st, 0)
        return DEFER
    items, fns, base = iter_plan(eng, st, it)
    if items is not None:
        def on_item(st, v):
            add(st, v)
            return None
        return run_pipeline(eng, st, dest, target, items, fns, on_item, lambda: UNIT)
    if not (isinstance(base, tuple) and base and base[0] == 'iter'):
        raise Unmodelled('extend from an unknown source')
    # symbolic source: one generic element
    pit = eng.purify(st, base)
    lid = ('extend', fr.body.path, fr.block)

    def apply_sym(st, j, val):
        if j >= len(fns):
            cur = eng.force(st, eng.load(st, r, p))
            if is_map:
                kv = eng.force(st, val)
                if kv[0] != 'tuple' or len(kv[1]) != 2:
                    raise Unmodelled('extend: item is not a pair')
                k = eng.force(st, kv[1][0])
                h = eng.hooks.get('map_insert')
                if h:
                    h(eng, st, st.frames[-1], t, (r, p), k, kv[1][1])
                eng.store(st, r, p, ('mapsum', cur, lid, ('map', None, ((k, kv[1][1]),))))
            else:
                h = eng.hooks.get('vec_push')
                if h:
                    h(eng, st, st.frames[-1], t, (r, p), val)
                eng.store(st, r, p, ('vecsum', cur, lid, val))
            eng.finish_call(st, st.frames[-1], dest, target, UNIT)
            return

        def cont(st, fr2, dest_, target_, rv, j=j):
            apply_sym(st, j + 1, rv)
        eng.call_callable(st, fns[j], [val], ('seq', dest, target, cont))
    apply_sym(st, 0, ('iterval', lid, pit))
    return DEFER


for _n in ('<std::vec::Vec<T, A> as std::iter::Extend<T>>::extend', '<std::collections::BTreeMap<K, V, A> as std::iter::Extend<(K, V)>>::extend',
           '<std::collections::HashMap<K, V, S, A> as std::iter::Extend<(K, V)>>::extend', 'std::iter::Extend::extend'):
    MODELS[_n] = _extend


@model('std::iter::Iterator::filter')
def _iter_filter(eng, st, fr, t, args, dest, target):
    """over a known sequence the predicate is evaluated for every item now (it is assumed pure); the result iterates
    the kept items"""
    items, fns, base = iter_plan(eng, st, args[0])
    f = args[1]
    if items is None:
        return ('iter', 'op', eng.force(st, args[0]), 'filter', f)
    kroot = eng.temp(st, ('vec', ()))      # kept items live in the state (a fork inside the predicate copies them)

    def next_item(st, i):
        if i >= len(items):
            eng.finish_call(st, st.frames[-1], dest, target, ('iter', 'val', st.mem[kroot]))
            return
        apply_fn(st, i, 0, items[i])

    def apply_fn(st, i, j, val):
        if j < len(fns):
            def cont(st, fr2, dest_, target_, rv, i=i, j=j):
                apply_fn(st, i, j + 1, rv)
            eng.call_callable(st, fns[j], [val], ('seq', dest, target, cont))
            return
        ref = mk_ref(eng.temp(st, val), ())

        def cont2(st, fr2, dest_, target_, rv, i=i, val=val):
            if eng.decide(st, rv):
                st.mem[kroot] = ('vec', st.mem[kroot][1] + (val,))
            next_item(st, i + 1)
        eng.call_callable(st, f, [ref], ('seq', dest, target, cont2))
    next_item(st, 0)
    return DEFER


@model('std::iter::Iterator::take')
def _iter_take(eng, st, fr, t, args, dest, target):
    return ('iter', 'take', eng.force(st, args[0]), args[1])


@model('std::iter::Iterator::skip')
def _iter_skip(eng, st, fr, t, args, dest, target):
    return ('iter', 'skip', eng.force(st, args[0]), args[1])


@model('std::iter::Iterator::rev')
def _iter_rev(eng, st, fr, t, args, dest, target):
    return ('iter', 'rev', eng.force(st, args[0]))


@model('std::iter::Iterator::any', 'std::iter::Iterator::all')
def _iter_any(eng, st, fr, t, args, dest, target):
    is_any = t['callee']['decl'].endswith('any')
    itp = ptr_of(eng, st, args[0])
    it = eng.force(st, eng.load(st, *itp))
    if it[0] == 'iter' and it[1] == 'map':
        items = drive_items(eng, st, it[2])
        if items is not None:
            return _drive_any(eng, st, dest, target, args[1], items, 0, is_any)
    items2, fns2, _b = iter_plan(eng, st, it)
    if items2 is not None:
        aroot = eng.temp(st, ('vec', ()))

        def on_item(st, c):
            acc = st.mem[aroot][1]
            if is_const(c):
                if bool(cval(c)) == is_any:
                    out = cbool(is_any)
                    for c2 in reversed(acc):
                        out = ite(c2, cbool(is_any), out) if is_any else ite(c2, out, cbool(is_any))
                    return (out,)
                return None
            st.mem[aroot] = ('vec', acc + (c,))
            return None

        def on_end(st_):
            out = cbool(not is_any)
            for c2 in reversed(st_.mem[aroot][1]):
                out = ite(c2, cbool(is_any), out) if is_any else ite(c2, out, cbool(is_any))
            return out
        fclo = eng.force(st, args[1])
        return run_pipeline(eng, st, dest, target, items2, fns2 + [fclo], on_item, on_end)
    return ('app', 'any' if is_any else 'all', (eng.purify(st, it), eng.purify(st, args[1])))


def _drive_any(eng, st, dest, target, f, items, i, is_any, acc=()):
    """closures are evaluated for every element (they are pure in this crate);
    the result is the short-circuit or/and of their results as an ite chain"""
    if i >= len(items):
        out = cbool(not is_any)
        for c in reversed(acc):
            out = ite(c, cbool(is_any), out) if is_any else ite(c, out, cbool(is_any))
        eng.finish_call(st, st.frames[-1], dest, target, out)
        return DEFER
    kp, vp = items[i]

    def cont(st, fr2, dest, target, rv, i=i):
        c = rv
        if is_const(c):
            if bool(cval(c)) == is_any:
                out = cbool(is_any)
                for c2 in reversed(acc):
                    out = ite(c2, cbool(is_any), out) if is_any else ite(c2, out, cbool(is_any))
                eng.finish_call(st, fr2, dest, target, out)
            else:
                _drive_any(eng, st, dest, target, f, items, i + 1, is_any, acc)
            return
        _drive_any(eng, st, dest, target, f, items, i + 1, is_any, acc + (c,))
    fclo = eng.force(st, f)
    if fclo[0] == 'ref':
        fclo = eng.load(st, fclo[1], fclo[2])
    eng.call_callable(st, fclo, [('tuple', (kp, vp))], ('seq', dest, target, cont))
    return DEFER


def _concrete_seq(eng, st, it):
    """(items, pointer | None) when the iterator walks a sequence of known length"""
    if it[0] != 'iter':
        return None
    if it[1] == 'seq':
        r, p = ptr_of(eng, st, it[2])
        try:
            v = eng.force(st, eng.load(st, r, p))
        except KeyError:
            return None
        if v[0] in ('vec', 'array'):
            return [mk_ref(r, p + (('idx', C('usize', i)),)) for i in range(len(v[1]))]
    if it[1] == 'val' and it[2][0] in ('vec', 'array'):
        return list(it[2][1])
    if it[1] == 'map':
        items = drive_items(eng, st, it[2])
        if items is not None:
            return [('tuple', (k, v)) for k, v in items]
    return None


def _next_generic(eng, st, fr, t, args, dest, target):
    r, p = ptr_of(eng, st, args[0])
    itv = eng.force(st, eng.load(st, r, p))
    if isinstance(itv, tuple) and itv[0] == 'enum' and itv[2] == 'Range' and len(itv[4]) == 2:
        a, b = eng.force(st, itv[4][0]), eng.force(st, itv[4][1])
        if is_const(a) and is_const(b) and isinstance(cval(a), int) and isinstance(cval(b), int) \
                and cval(b) - cval(a) <= 64:
            if cval(a) < cval(b):
                eng.store(st, r, p, ('enum', itv[1], itv[2], itv[3], (C(a[1], cval(a) + 1), b)))
                return SOME(a)
            return NONE
    if isinstance(itv, tuple) and itv[0] == 'iter' and itv[1] in ('seq', 'val', 'map'):
        items = _concrete_seq(eng, st, itv)
        if items is not None:
            pos = itv[3] if len(itv) > 3 else 0
            if pos < len(items):
                eng.store(st, r, p, (itv[0], itv[1], itv[2], pos + 1))
                return SOME(items[pos])
            return NONE
    if isinstance(itv, tuple) and itv[0] == 'iter' and itv[1] == 'zip':
        sa = _concrete_seq(eng, st, itv[2]) if itv[2][0] == 'iter' else None
        sb = _concrete_seq(eng, st, itv[3]) if itv[3][0] == 'iter' else None
        if sa is not None and sb is not None:
            pos = itv[4] if len(itv) > 4 else 0
            if pos < min(len(sa), len(sb)):
                eng.store(st, r, p, ('iter', 'zip', itv[2], itv[3], pos + 1))
                return SOME(('tuple', (sa[pos], sb[pos])))
            return NONE
    it = eng.purify(st, eng.deref_arg(st, args[0]))
    lid = eng.enclosing_loop(fr)
    return ite(('iterhas', lid, it), SOME(('iterval', lid, it)), NONE)


for _n in ('<std::iter::Take<I> as std::iter::Iterator>::next',
           '<std::iter::Zip<A, B> as std::iter::Iterator>::next',
           '<std::slice::Iter<\'a, T> as std::iter::Iterator>::next',
           '<std::vec::IntoIter<T, A> as std::iter::Iterator>::next',
           'std::iter::range::<impl std::iter::Iterator for std::ops::Range<A>>::next',
           'std::iter::range::<impl std::iter::Iterator for std::ops::RangeInclusive<A>>::next',
           '<std::iter::Skip<I> as std::iter::Iterator>::next',
           '<std::array::IntoIter<T, N> as std::iter::Iterator>::next',
           '<std::iter::Map<I, F> as std::iter::Iterator>::next',
           '<std::iter::Enumerate<I> as std::iter::Iterator>::next',
           '<std::iter::Rev<I> as std::iter::Iterator>::next',
           '<std::collections::hash_map::Iter<\'a, K, V> as std::iter::Iterator>::next',
           '<std::collections::hash_map::IterMut<\'a, K, V> as std::iter::Iterator>::next',
           '<std::collections::btree_map::Iter<\'a, K, V> as std::iter::Iterator>::next',
           '<std::collections::btree_map::IterMut<\'a, K, V> as std::iter::Iterator>::next',
           'std::iter::Iterator::next'):
    MODELS[_n] = _next_generic


# -------------------------------------------------------------------- RefCell
@model('std::cell::RefCell::<T>::new')
def _cell_new(eng, st, fr, t, args, dest, target):
    return ('refcell', args[0], 0)


@model('std::cell::RefCell::<T>::into_inner')
def _cell_into_inner(eng, st, fr, t, args, dest, target):
    cell = eng.force(st, args[0])
    if cell[0] == 'refcell':
        return cell[1]
    return ('app', 'into_inner', (eng.purify(st, cell),))


@model('std::cell::RefCell::<T>::get_mut')
def _cell_get_mut(eng, st, fr, t, args, dest, target):
    r, p = ptr_of(eng, st, args[0])
    return mk_ref(r, p + (('cell',),))


@model('std::cell::RefCell::<T>::replace')
def _cell_replace(eng, st, fr, t, args, dest, target):
    r, p = ptr_of(eng, st, args[0])
    cell = eng.force(st, eng.load(st, r, p))
    if cell[0] == 'refcell':
        if cell[2] != 0:
            raise PathEnd('panic', ('already-borrowed', 'replace', fr.body.path, t.get('span')))
        eng.store(st, r, p, ('refcell', args[1], 0))
        return cell[1]
    raise Unmodelled('RefCell::replace on an unknown cell')


def _borrow(mut):
    def m(eng, st, fr, t, args, dest, target):
        r, p = ptr_of(eng, st, args[0])
        cell = eng.force(st, eng.load(st, r, p))
        if cell[0] == 'refcell':
            bs = cell[2]
            if (mut and bs != 0) or (not mut and bs < 0):
                raise PathEnd('panic', ('already-borrowed', 'borrow_mut' if mut else 'borrow', fr.body.path, t.get('span')))
            eng.store(st, r, p, ('refcell', cell[1], -1 if mut else bs + 1))
        h = eng.hooks.get('borrow')
        if h:
            h(eng, st, fr, t, (r, p), mut)
        return ('refguard', r, p, mut)
    return m


MODELS['std::cell::RefCell::<T>::borrow'] = _borrow(False)
MODELS['std::cell::RefCell::<T>::borrow_mut'] = _borrow(True)


@model("<std::cell::Ref<'_, T> as std::ops::Deref>::deref", "<std::cell::RefMut<'_, T> as std::ops::Deref>::deref",
       "<std::cell::RefMut<'_, T> as std::ops::DerefMut>::deref_mut")
def _guard_deref(eng, st, fr, t, args, dest, target):
    g = deref(eng, st, args[0])
    if g[0] == 'refguard':
        return mk_ref(g[1], g[2] + (('cell',),))
    return mk_ref(('S', ('cellof', g)), ())


@model('std::mem::drop')
def _mem_drop(eng, st, fr, t, args, dest, target):
    v = eng.force(st, args[0])
    eng.drop_value(st, v)
    h = eng.hooks.get('mem_drop')
    if h:
        h(eng, st, fr, t, v)
    return UNIT


# ------------------------------------------------------------------------ Vec
@model('std::vec::Vec::<T>::new', 'std::vec::Vec::<T>::with_capacity')
def _vec_new(eng, st, fr, t, args, dest, target):
    return ('vec', ())


@model('std::vec::Vec::<T, A>::push')
def _vec_push(eng, st, fr, t, args, dest, target):
    r, p = ptr_of(eng, st, args[0])
    v = eng.force(st, eng.load(st, r, p))
    h = eng.hooks.get('vec_push')
    if h:
        h(eng, st, fr, t, (r, p), args[1])
    lid = eng.enclosing_loop(fr)
    if lid is not None and v[0] == 'vec':
        seen = fr.loops.get(lid[1])
        if not seen or not seen[-1][3]:
            lid = None          # the loop is (so far) iterated concretely
    if lid is not None:
        if v[0] == 'vecsum' and v[2] == lid and v[3] == args[1]:
            return UNIT
        eng.store(st, r, p, ('vecsum', v, lid, args[1]))
        return UNIT
    if v[0] == 'vec':
        eng.store(st, r, p, ('vec', v[1] + (args[1],)))
    else:
        eng.store(st, r, p, ('vecsum', v, None, args[1]))
    return UNIT


@model('std::vec::Vec::<T, A>::pop')
def _vec_pop(eng, st, fr, t, args, dest, target):
    r, p = ptr_of(eng, st, args[0])
    v = eng.force(st, eng.load(st, r, p))
    if v[0] == 'vec':
        if not v[1]:
            return NONE
        eng.store(st, r, p, ('vec', v[1][:-1]))
        return SOME(v[1][-1])
    pv = eng.purify(st, v)
    # an unknown vector: empty (nothing changes) or its last element taken off
    eng.store(st, r, p, ite(('app', 'vec_is_empty', (pv,)), v, ('app', 'vec_init', (pv,))))
    return ite(('app', 'vec_is_empty', (pv,)), NONE, SOME(('app', 'vec_last', (pv,))))


@model('std::vec::Vec::<T, A>::insert')
def _vec_insert(eng, st, fr, t, args, dest, target):
    r, p = ptr_of(eng, st, args[0])
    v = eng.force(st, eng.load(st, r, p))
    i = eng.force(st, args[1])
    if v[0] == 'vec' and is_const(i):
        if cval(i) > len(v[1]):
            raise PathEnd('panic', ('insert-out-of-bounds', cval(i), len(v[1]), fr.body.path, t.get('span')))
        items = list(v[1])
        items.insert(cval(i), args[2])
        eng.store(st, r, p, ('vec', tuple(items)))
    else:
        eng.event(st, 'incomplete', what='Vec::insert at an unknown position', fn=fr.body.path)
        eng.incomplete.append(('vec-insert', fr.body.path, fr.block))
        eng.store(st, r, p, ('app', 'vec_insert', (v, i, args[2])))
    return UNIT


@model('<std::vec::Vec<T, A> as std::ops::Index<I>>::index', 'std::array::<impl std::ops::Index<I> for [T; N]>::index',
       'core::array::<impl std::ops::Index<I> for [T; N]>::index', 'core::slice::index::<impl std::ops::Index<I> for [T]>::index',
       '<std::vec::Vec<T, A> as std::ops::IndexMut<I>>::index_mut')
def _vec_index(eng, st, fr, t, args, dest, target):
    r, p = ptr_of(eng, st, args[0])
    i = eng.force(st, args[1])
    v = eng.force(st, eng.load(st, r, p))
    eng.event(st, 'seq-index', index=i, container=(v[0], len(v[1]) if v[0] in ('vec', 'array') else None),
              fn=fr.body.path, span=t.get('span'), ty=t['callee'].get('gargs'))
    if v[0] in ('vec', 'array') and is_const(i) and cval(i) >= len(v[1]):
        raise PathEnd('panic', ('index-out-of-bounds', cval(i), len(v[1]), fr.body.path, t.get('span')))
    return mk_ref(r, p + (('idx', i),))


@model('<std::vec::Vec<T, A> as std::ops::Deref>::deref', '<std::vec::Vec<T, A> as std::ops::DerefMut>::deref_mut')
def _vec_deref(eng, st, fr, t, args, dest, target):
    r, p = ptr_of(eng, st, args[0])
    return mk_ref(r, p)


@model('<std::vec::Vec<T, A> as std::clone::Clone>::clone')
def _vec_clone(eng, st, fr, t, args, dest, target):
    return deref(eng, st, args[0])


@model('std::vec::Vec::<T, A>::len', 'core::slice::<impl [T]>::len')
def _vec_len(eng, st, fr, t, args, dest, target):
    v = deref(eng, st, args[0])
    if v[0] in ('vec', 'array'):
        return C('usize', len(v[1]))
    return ('app', 'len', (v,))


@model('std::boxed::Box::<T>::new_uninit')
def _box_new_uninit(eng, st, fr, t, args, dest, target):
    r = eng.temp(st, ('uninit', 'box'))
    return mk_ref(r, ())


@model('std::boxed::box_assume_init_into_vec_unsafe')
def _box_into_vec(eng, st, fr, t, args, dest, target):
    v = deref(eng, st, args[0])
    n = 0
    while isinstance(v, tuple) and v and v[0] == 'upd' and n < 6:
        v = v[3]
        n += 1
    if isinstance(v, tuple) and v and v[0] == 'array':
        return ('vec', v[1])
    return ('app', 'into_vec', (eng.purify(st, v),))


# ------------------------------------------------------------- comparisons
def _cmp(op):
    def m(eng, st, fr, t, args, dest, target):
        a = eng.deref_arg(st, args[0])
        b = eng.deref_arg(st, args[1])
        return eng.binop(st, op, a, b) if (is_const(a) and is_const(b)) else ('app', 'cmp_' + op.lower(), (a, b))
    return m


for _op in ('Lt', 'Le', 'Gt', 'Ge'):
    MODELS['std::cmp::PartialOrd::' + _op.lower()] = _cmp(_op)
    BOOL_APPS.add('cmp_' + _op.lower())
BOOL_APPS.update({'cmp_eq', 'cmp_ne', 'contains_key', 'any', 'all'})


def _eq_like(negate):
    def m(eng, st, fr, t, args, dest, target):
        ga = t['callee'].get('gargs') or []
        selfty = ga[0] if ga else None
        if selfty:
            cand = f'<{selfty} as std::cmp::PartialEq>::eq'
            body = eng.facts.bodies.get(cand)
            if body is not None:
                fn = (lambda x: eng.unop(st, 'Not', x)) if negate else (lambda x: x)
                eng.push_call(st, body, list(args), None, None, ('wrap', dest, target, fn))
                return DEFER
        a = eng.deref_arg(st, args[0])
        b = eng.deref_arg(st, args[1])
        r = ('app', 'cmp_eq', (a, b))
        return ('un', 'Not', r) if negate else r
    return m


MODELS['std::cmp::PartialEq::ne'] = _eq_like(True)
MODELS['std::cmp::PartialEq::eq'] = _eq_like(False)


@model('std::ops::RangeInclusive::<Idx>::new')
def _ri_new(eng, st, fr, t, args, dest, target):
    return ('rangeincl', args[0], args[1])


@model('std::ops::RangeInclusive::<Idx>::contains')
def _ri_contains(eng, st, fr, t, args, dest, target):
    rg = deref(eng, st, args[0])
    x = eng.deref_arg(st, args[1])
    if rg[0] == 'rangeincl' and is_const(rg[1]) and is_const(rg[2]) and is_const(x):
        try:
            return cbool(cval(rg[1]) <= cval(x) <= cval(rg[2]))
        except TypeError:
            pass
    return ('app', 'contains', (rg, x))


@model('std::ops::RangeInclusive::<Idx>::start')
def _ri_start(eng, st, fr, t, args, dest, target):
    rg = deref(eng, st, args[0])
    if rg[0] == 'rangeincl':
        return mk_ref(('S', rg[1]), ())
    return mk_ref(('S', ('app', 'range_start', (rg,))), ())


@model('std::ops::RangeInclusive::<Idx>::end')
def _ri_end(eng, st, fr, t, args, dest, target):
    rg = deref(eng, st, args[0])
    if rg[0] == 'rangeincl':
        return mk_ref(('S', rg[2]), ())
    return mk_ref(('S', ('app', 'range_end', (rg,))), ())


@model('<f64 as std::ops::Rem>::rem')
def _f64_rem(eng, st, fr, t, args, dest, target):
    return ('bin', 'Rem', args[0], args[1])


@model('std::clone::Clone::clone')
def _clone_generic(eng, st, fr, t, args, dest, target):
    return deref(eng, st, args[0])


# ------------------------------------------------------------------- fold
def _seq_of_iter(eng, st, it):
    """(enumerate?, items | None, length | None, purified iterator) of a slice/array iterator"""
    enum = False
    if it[0] == 'iter' and it[1] == 'enumerate':
        enum = True
        it = it[2]
    items = None
    n = None
    if it[0] == 'iter' and it[1] == 'seq':
        items = _concrete_seq(eng, st, it)
        n = len(items) if items is not None else eng.seq_len(st, it[2])
    return enum, items, n


def _fold(eng, st, fr, t, args, dest, target):
    it = eng.force(st, args[0])
    f = args[2]
    enum, items, n = _seq_of_iter(eng, st, it)
    lid = ('fold', fr.body.path, fr.block)
    if items is not None and len(items) <= 8:
        return _drive_fold(eng, st, dest, target, f, items, 0, args[1], enum)
    pit = eng.purify(st, it)
    elem = ('iterval', lid, pit)
    idx = ('bounded', 0, n, lid)
    item = ('tuple', (idx, elem)) if enum else elem
    acc = ('foldacc', lid, eng.purify(st, args[1]))

    def cont(st, fr2, dest, target, rv):
        eng.finish_call(st, fr2, dest, target, ('app', 'fold', (pit, eng.purify(st, args[1]), eng.purify(st, rv))))
    eng.call_callable(st, f, [acc, item], ('seq', dest, target, cont))
    return DEFER


def _drive_fold(eng, st, dest, target, f, items, i, acc, enum):
    if i >= len(items):
        eng.finish_call(st, st.frames[-1], dest, target, acc)
        return DEFER
    item = ('tuple', (C('usize', i), items[i])) if enum else items[i]

    def cont(st, fr2, dest, target, rv, i=i):
        _drive_fold(eng, st, dest, target, f, items, i + 1, rv, enum)
    eng.call_callable(st, f, [acc, item], ('seq', dest, target, cont))
    return DEFER


for _n in ('<std::iter::Enumerate<I> as std::iter::Iterator>::fold', "<std::slice::Iter<'a, T> as std::iter::Iterator>::fold",
           'std::iter::Iterator::fold'):
    MODELS[_n] = _fold


# ------------------------------------------------------------ threads / channels
@model('std::sync::mpsc::channel')
def _channel(eng, st, fr, t, args, dest, target):
    cid = (fr.body.path, fr.block)
    eng.event(st, 'chan-new', chan=cid)
    eng.event(st, 'sender-new', sender=('sender', cid, 'orig'), how='channel()')
    return ('tuple', (('sender', cid, 'orig'), ('receiver', cid)))


@model('<std::sync::mpsc::Sender<T> as std::clone::Clone>::clone')
def _sender_clone(eng, st, fr, t, args, dest, target):
    v = deref(eng, st, args[0])
    if v[0] == 'sender':
        nv = ('sender', v[1], ('clone', fr.body.path, fr.block))
        eng.event(st, 'sender-new', sender=nv, how='clone', of=v)
        return nv
    return ('app', 'sender_clone', (v,))


@model('std::sync::mpsc::Sender::<T>::send')
def _send(eng, st, fr, t, args, dest, target):
    v = deref(eng, st, args[0])
    eng.event(st, 'send', sender=v, value=eng.purify(st, args[1]), fn=fr.body.path)
    return ('app', 'send', (v, eng.purify(st, args[1])))


@model('std::sync::mpsc::Receiver::<T>::recv')
def _recv(eng, st, fr, t, args, dest, target):
    v = deref(eng, st, args[0])
    lid = eng.enclosing_loop(fr)
    eng.event(st, 'recv', receiver=v, fn=fr.body.path, loop=lid)
    return ite(('iterhas', lid, ('recv', v)), OK(('iterval', lid, ('recv', v))), ERR(('app', 'RecvError', ())))


@model('std::sync::mpsc::Receiver::<T>::recv_timeout', 'std::sync::mpsc::Receiver::<T>::try_recv')
def _recv_timeout(eng, st, fr, t, args, dest, target):
    # may fail although senders are still alive (timeout / empty): the condition is NOT the closed-channel condition
    v = deref(eng, st, args[0])
    lid = eng.enclosing_loop(fr)
    eng.event(st, 'recv', receiver=v, fn=fr.body.path, loop=lid, timed=True)
    return ite(('iterhas', lid, ('recv_timed', v)), OK(('iterval', lid, ('recv', v))), ERR(('app', 'RecvTimeoutError', ())))


for _n in ('std::time::Duration::from_millis', 'std::time::Duration::from_secs', 'std::time::Duration::from_micros',
           'std::time::Duration::from_nanos', 'std::time::Duration::from_secs_f64'):
    MODELS[_n] = (lambda eng, st, fr, t, args, dest, target: ('app', 'Duration', (eng.purify(st, args[0]),)))


@model('<std::collections::HashMap<K, V, S, A> as std::clone::Clone>::clone_from',
       '<std::collections::BTreeMap<K, V, A> as std::clone::Clone>::clone_from', '<std::vec::Vec<T, A> as std::clone::Clone>::clone_from')
def _clone_from(eng, st, fr, t, args, dest, target):
    r, p = ptr_of(eng, st, args[0])
    src = deref(eng, st, args[1])
    eng.store(st, r, p, src)
    return UNIT


@model('std::iter::successors')
def _iter_successors(eng, st, fr, t, args, dest, target):
    return ('iter', 'successors', args[0], args[1])


def _successors_next(eng, st, fr, t, args, dest, target):
    r, p = ptr_of(eng, st, args[0])
    itv = eng.force(st, eng.load(st, r, p))
    if not (itv[0] == 'iter' and itv[1] == 'successors'):
        return _next_generic(eng, st, fr, t, args, dest, target)
    vn, cur = variant_of(eng, st, itv[2], OPT)
    if vn != 'Some':
        return NONE
    v = payload(eng, st, cur, 'Some')
    ref = mk_ref(eng.temp(st, v), ())

    def cont(st, fr2, dest_, target_, rv):
        eng.store(st, r, p, ('iter', 'successors', rv, itv[3]))
        eng.finish_call(st, fr2, dest, target, SOME(v))
    eng.call_callable(st, itv[3], [ref], ('seq', dest, target, cont))
    return DEFER


MODELS['<std::iter::Successors<T, F> as std::iter::Iterator>::next'] = _successors_next


@model("std::thread::Scope::<'scope, 'env>::spawn")
def _spawn(eng, st, fr, t, args, dest, target):
    clo = eng.force(st, args[1])
    hid = ('joinhandle', fr.body.path, fr.block)
    eng.event(st, 'spawn', closure=clo, handle=hid, loop=eng.enclosing_loop(fr), fn=fr.body.path)
    return hid


@model("std::thread::ScopedJoinHandle::<'scope, T>::join")
def _join(eng, st, fr, t, args, dest, target):
    h = eng.force(st, args[0])
    eng.event(st, 'join', handle=h, fn=fr.body.path)
    return ('app', 'join', (h,))


@model('std::thread::scope')
def _scope(eng, st, fr, t, args, dest, target):
    sc = mk_ref(('S', ('scope', fr.body.path, fr.block)), ())
    eng.event(st, 'scope', fn=fr.body.path)
    eng.call_callable(st, args[0], [sc], ('wrap', dest, target, lambda x: x))
    return DEFER


@model('<std::collections::HashMap<K, V> as std::convert::From<[(K, V); N]>>::from',
       '<std::collections::BTreeMap<K, V> as std::convert::From<[(K, V); N]>>::from')
def _map_from_array(eng, st, fr, t, args, dest, target):
    a = eng.force(st, args[0])
    if a[0] == 'array':
        m = ('map', None, ())
        for it in a[1]:
            it = eng.force(st, it)
            if it[0] != 'tuple' or len(it[1]) != 2:
                return ('app', 'map_from', (eng.purify(st, a),))
            m = map_put(m, eng.force(st, it[1][0]), it[1][1])
        return m
    return ('app', 'map_from', (eng.purify(st, a),))


import re as _re
_NUM_FROM = _re.compile(r"^(std|core)::convert::num::<impl (std|core)::convert::From<(u8|u16|u32|i8|i16|i32|f32|bool)> for (f64|f32|u16|u32|u64|i16|i32|i64|usize|isize|u128|i128)>::from$")


def _num_from(eng, st, fr, t, args, dest, target):
    m = _NUM_FROM.match(t['callee'].get('resolved') or '')
    return eng.cast(st, 'IntToFloat' if m and m.group(4) in ('f64', 'f32') else 'IntToInt', args[0], m.group(4) if m else 'f64')


_orig_mbp = None


@model('<T as std::convert::Into<U>>::into')
def _into(eng, st, fr, t, args, dest, target):
    ga = t['callee'].get('gargs') or []
    if len(ga) >= 2:
        T, U = ga[0], ga[1]
        if T == U:
            return args[0]
        for p, b in eng.facts.bodies.items():
            io = b.impl_of
            if io and (io.get('trait') or '').endswith('convert::From') and io.get('self_ty') == U and b.arg_count == 1 and \
                    b.locals[1]['s'] == T and p.split('::')[-1] == 'from':
                eng.push_call(st, b, [args[0]], dest, target, None, None)
                return DEFER
    return ('app', 'into', (eng.purify(st, args[0]),))


# ======================================================================================= generic iterator pipelines
def iter_plan(eng, st, it):
    """(items | None, [closures to apply in order]) for an iterator value; items are the element values"""
    fns = []
    it = eng.force(st, it)
    while isinstance(it, tuple) and it and it[0] == 'iter' and it[1] in ('mapped', 'op'):
        if it[1] == 'mapped':
            fns.insert(0, it[3])
        else:
            fns.insert(0, (it[3], it[4]))      # ('filter' | 'filter_map' | 'flat_map' | 'copied', closure)
        it = eng.force(st, it[2])
    if not (isinstance(it, tuple) and it and it[0] == 'iter'):
        return None, fns, it
    kind = it[1]
    if kind == 'map':
        items = drive_items(eng, st, it[2])
        return (None if items is None else [('tuple', kv) for kv in items]), fns, it
    if kind == 'values':
        items = drive_items(eng, st, it[2])
        return (None if items is None else [v for _, v in items]), fns, it
    if kind == 'val':
        v = eng.force(st, it[2])
        if v[0] == 'map' and v[1] is None:
            return [('tuple', (k, x)) for k, x in v[2]], fns, it
        if v[0] in ('vec', 'array'):
            return list(v[1]), fns, it
        return None, fns, it
    if kind == 'seq':
        items = _concrete_seq(eng, st, it)
        return items, fns, it
    return None, fns, it


def _opaque(eng, st, t, args):
    """fall back to an uninterpreted result (recorded as a library call without a model)"""
    name = (t.get('callee') or {}).get('resolved') or (t.get('callee') or {}).get('decl') or 'unknown'
    eng.unmodelled[name] = eng.unmodelled.get(name, 0) + 1
    return eng.opaque_app(st, name, args)


def _takes_arg(f):
    try:
        return f.__code__.co_argcount >= 1
    except AttributeError:
        return False


def run_pipeline(eng, st, dest, target, items, fns, on_item, on_end):
    """apply fns to every item (closures via continuations), feed the results to on_item(result) -> stop value | None,
    finally write on_end() to dest"""
    def next_item(st, i):
        if i >= len(items):
            eng.finish_call(st, st.frames[-1], dest, target, on_end(st) if _takes_arg(on_end) else on_end())
            return
        apply_fn(st, i, 0, items[i])

    def apply_fn(st, i, j, val):
        if j >= len(fns):
            stop = on_item(st, val)
            if stop is not None:
                eng.finish_call(st, st.frames[-1], dest, target, stop[0])
                return
            next_item(st, i + 1)
            return

        op = fns[j]
        if isinstance(op, tuple) and len(op) == 2 and op[0] in ('filter', 'filter_map', 'flat_map', 'copied'):
            kind, f = op
            if kind == 'copied':
                v = eng.force(st, val)
                n = 0
                while isinstance(v, tuple) and v and v[0] == 'ref' and n < 3:
                    v = eng.load(st, v[1], v[2])
                    n += 1
                apply_fn(st, i, j + 1, v)
                return
            if kind == 'filter':
                ref = mk_ref(eng.temp(st, val), ())

                def contf(st, fr2, dest_, target_, rv, i=i, j=j, val=val):
                    if eng.decide(st, rv):
                        apply_fn(st, i, j + 1, val)
                    else:
                        next_item(st, i + 1)
                eng.call_callable(st, f, [ref], ('seq', dest, target, contf))
                return

            def contm(st, fr2, dest_, target_, rv, i=i, j=j, kind=kind):
                # the closure's result is an Option / Result (0 or 1 item) or a known sequence
                r = eng.force(st, rv)
                if r[0] in ('array', 'vec'):
                    sub = list(r[1])
                elif r[0] == 'iter' and r[1] == 'val' and r[2][0] in ('array', 'vec'):
                    sub = list(r[2][1])
                else:
                    vn, v = variant_of(eng, st, r, OPT if not (r[0] == 'enum' and r[2] in ('Ok', 'Err')) else RES)
                    sub = [payload(eng, st, v, vn)] if vn in ('Some', 'Ok') else []

                def feed(st, k):
                    if k >= len(sub):
                        next_item(st, i + 1)
                        return
                    # items after the first of a flat_map are fed in order; on_item decides whether to stop
                    saved_next = None
                    apply_rest(st, sub, k)

                def apply_rest(st, sub, k):
                    if k >= len(sub):
                        next_item(st, i + 1)
                        return
                    if k == len(sub) - 1:
                        apply_fn(st, i, j + 1, sub[k])
                        return
                    # more than one produced item: process them one after the other through the remaining stages
                    raise Unmodelled('flat_map producing several items per element')
                feed(st, 0)
            eng.call_callable(st, f, [val], ('seq', dest, target, contm))
            return

        def cont(st, fr2, dest_, target_, rv, i=i, j=j):
            apply_fn(st, i, j + 1, rv)
        eng.call_callable(st, op, [val], ('seq', dest, target, cont))
    next_item(st, 0)
    return DEFER


def build_collection(kind, results, eng, st):
    if kind == 'map':
        m = ('map', None, ())
        for r in results:
            r = eng.force(st, r)
            if r[0] != 'tuple' or len(r[1]) != 2:
                raise Unmodelled('collect: item is not a pair')
            m = map_put(m, eng.force(st, r[1][0]), r[1][1])
        return m
    return ('vec', tuple(results))


def _collect_generic(eng, st, fr, t, args, dest, target, kind):
    items, fns, base = iter_plan(eng, st, args[0])
    if items is None:
        if not (isinstance(base, tuple) and base and base[0] == 'iter'):
            return ('app', 'collect', (eng.purify(st, args[0]),))
        # symbolic source: the closures are applied to one generic element; the collection is the sum over the source
        pit = eng.purify(st, base)
        lid = ('collect', fr.body.path, fr.block)

        def fin(st, v):
            if kind == 'map':
                r = eng.force(st, v)
                if r[0] != 'tuple' or len(r[1]) != 2:
                    raise Unmodelled('collect: item is not a pair')
                k = eng.force(st, r[1][0])
                h = eng.hooks.get('map_insert')
                if h:
                    h(eng, st, st.frames[-1], t, None, k, r[1][1])
                return ('mapsum', ('map', None, ()), lid, ('map', None, ((k, r[1][1]),)))
            h = eng.hooks.get('vec_push')
            if h:
                h(eng, st, st.frames[-1], t, None, v)
            return ('vecsum', ('vec', ()), lid, v)

        def apply_sym(st, j, val):
            if j >= len(fns):
                eng.finish_call(st, st.frames[-1], dest, target, fin(st, val))
                return

            def cont(st, fr2, dest_, target_, rv, j=j):
                apply_sym(st, j + 1, rv)
            eng.call_callable(st, fns[j], [val], ('seq', dest, target, cont))
        apply_sym(st, 0, ('iterval', lid, pit))
        return DEFER
    rroot = eng.temp(st, ('vec', ()))      # collected items live in the state: a fork inside a stage copies them

    def on_item(st, v):
        st.mem[rroot] = ('vec', st.mem[rroot][1] + (v,))
        return None
    return run_pipeline(eng, st, dest, target, items, fns, on_item, lambda st_: build_collection(kind, list(st_.mem[rroot][1]), eng, st_))


@model('std::iter::Iterator::collect')
def _collect(eng, st, fr, t, args, dest, target):
    ga = t['callee'].get('gargs') or []
    tgt = ga[1] if len(ga) > 1 else ''
    kind = 'map' if ('HashMap<' in tgt or 'BTreeMap<' in tgt) else 'vec'
    return _collect_generic(eng, st, fr, t, args, dest, target, kind)


def _from_iter2(eng, st, fr, t, args, dest, target):
    return _collect_generic(eng, st, fr, t, args, dest, target, 'map')


for _n in ('<std::collections::HashMap<K, V, S> as std::iter::FromIterator<(K, V)>>::from_iter',
           '<std::collections::BTreeMap<K, V> as std::iter::FromIterator<(K, V)>>::from_iter'):
    MODELS[_n] = _from_iter2


@model('std::collections::HashMap::<K, V, S, A>::values', 'std::collections::BTreeMap::<K, V, A>::values')
def _map_values(eng, st, fr, t, args, dest, target):
    r, p = ptr_of(eng, st, args[0])
    return ('iter', 'values', mk_ref(r, p))


@model('<std::collections::HashMap<K, V, S, A> as std::iter::IntoIterator>::into_iter',
       '<std::collections::BTreeMap<K, V, A> as std::iter::IntoIterator>::into_iter')
def _map_into_iter(eng, st, fr, t, args, dest, target):
    return ('iter', 'val', eng.force(st, args[0]))


@model("<&'a std::collections::HashMap<K, V, S, A> as std::iter::IntoIterator>::into_iter",
       "<&'a std::collections::BTreeMap<K, V, A> as std::iter::IntoIterator>::into_iter")
def _map_ref_into_iter(eng, st, fr, t, args, dest, target):
    r, p = ptr_of(eng, st, args[0])
    return ('iter', 'map', mk_ref(r, p))


@model('std::iter::Iterator::find_map')
def _find_map(eng, st, fr, t, args, dest, target):
    r, p = ptr_of(eng, st, args[0])
    itv = eng.force(st, eng.load(st, r, p))
    items, fns, base = iter_plan(eng, st, itv)
    f = args[1]
    if items is not None:
        def on_item(st, v):
            vn, vv = variant_of(eng, st, v, OPT)
            return (vv,) if vn == 'Some' else None
        return run_pipeline(eng, st, dest, target, items, fns + [f], on_item, lambda: NONE)
    lid = ('find_map', fr.body.path, fr.block)
    pit = eng.purify(st, itv)
    has = ('iterhas', lid, pit)

    def cont(st, fr2, dest_, target_, rv):
        eng.finish_call(st, fr2, dest, target, ite(has, rv, NONE))
    eng.call_callable(st, f, [('iterval', lid, pit)], ('seq', dest, target, cont))
    return DEFER


@model('<std::option::Option<T> as std::ops::Try>::branch')
def _opt_branch(eng, st, fr, t, args, dest, target):
    vn, v = variant_of(eng, st, args[0], OPT)
    if vn == 'Some':
        return mk_enum(CF, 'Continue', 0, (payload(eng, st, v, 'Some'),))
    return mk_enum(CF, 'Break', 1, (NONE,))


@model('<std::option::Option<T> as std::ops::FromResidual<std::option::Option<std::convert::Infallible>>>::from_residual')
def _opt_from_residual(eng, st, fr, t, args, dest, target):
    return NONE


@model('core::bool::<impl bool>::then_some', 'std::bool::<impl bool>::then_some')
def _then_some(eng, st, fr, t, args, dest, target):
    return ite(args[0], SOME(args[1]), NONE)


@model('core::bool::<impl bool>::then', 'std::bool::<impl bool>::then')
def _then(eng, st, fr, t, args, dest, target):
    if eng.decide(st, args[0]):
        eng.call_callable(st, args[1], [], ('wrap', dest, target, SOME))
        return DEFER
    return NONE


@model('std::option::Option::<T>::or_else')
def _opt_or_else(eng, st, fr, t, args, dest, target):
    vn, v = variant_of(eng, st, args[0], OPT)
    if vn == 'Some':
        return v if v[0] == 'enum' else SOME(payload(eng, st, v, 'Some'))
    eng.call_callable(st, args[1], [], ('wrap', dest, target, lambda x: x))
    return DEFER


@model('std::option::Option::<T>::filter')
def _opt_filter(eng, st, fr, t, args, dest, target):
    vn, v = variant_of(eng, st, args[0], OPT)
    if vn != 'Some':
        return NONE
    pv = payload(eng, st, v, 'Some')
    ref = mk_ref(eng.temp(st, pv), ())

    def cont(st, fr2, dest_, target_, rv):
        keep = eng.decide(st, rv)
        eng.finish_call(st, fr2, dest, target, SOME(pv) if keep else NONE)
    eng.call_callable(st, args[1], [ref], ('seq', dest, target, cont))
    return DEFER


@model('std::option::Option::<T>::or')
def _opt_or(eng, st, fr, t, args, dest, target):
    vn, v = variant_of(eng, st, args[0], OPT)
    if vn == 'Some':
        return v if v[0] == 'enum' else SOME(payload(eng, st, v, 'Some'))
    return args[1]


@model('std::option::Option::<T>::map_or', 'std::option::Option::<T>::is_some_and')
def _opt_map_or(eng, st, fr, t, args, dest, target):
    is_and = t['callee']['decl'].endswith('is_some_and')
    vn, v = variant_of(eng, st, args[0], OPT)
    if vn == 'Some':
        eng.call_callable(st, args[1] if is_and else args[2], [payload(eng, st, v, 'Some')], ('wrap', dest, target, lambda x: x))
        return DEFER
    return FALSE if is_and else args[1]


@model('std::option::Option::<T>::unwrap_or_default', 'std::result::Result::<T, E>::unwrap_or_default')
def _unwrap_or_default(eng, st, fr, t, args, dest, target):
    is_opt = 'option' in t['callee']['decl']
    vn, v = variant_of(eng, st, args[0], OPT if is_opt else RES)
    if vn in ('Some', 'Ok'):
        return payload(eng, st, v, vn)
    ga = t['callee'].get('gargs') or []
    if ga:
        for p, b in eng.facts.bodies.items():
            io = b.impl_of
            if io and (io.get('trait') or '').endswith('default::Default') and io.get('self_ty') == ga[0] and p.split('::')[-1] == 'default':
                eng.push_call(st, b, [], dest, target, None, None)
                return DEFER
    return ('app', 'default', ())


@model('std::option::Option::<T>::get_or_insert_with')
def _get_or_insert_with(eng, st, fr, t, args, dest, target):
    r, p = ptr_of(eng, st, args[0])
    vn, v = variant_of(eng, st, eng.load(st, r, p), OPT)
    if vn == 'Some':
        return mk_ref(r, p + (('v', 'Some'), ('f', 0, '0')))

    def cont(st, fr2, dest_, target_, rv):
        eng.store(st, r, p, SOME(rv))
        eng.finish_call(st, fr2, dest, target, mk_ref(r, p + (('v', 'Some'), ('f', 0, '0'))))
    eng.call_callable(st, args[1], [], ('seq', dest, target, cont))
    return DEFER


@model('std::result::Result::<T, E>::is_ok_and', 'std::result::Result::<T, E>::is_err_and')
def _res_is_ok_and2(eng, st, fr, t, args, dest, target):
    want = 'Ok' if t['callee']['decl'].endswith('is_ok_and') else 'Err'
    vn, v = variant_of(eng, st, args[0], RES)
    if vn == want:
        eng.call_callable(st, args[1], [payload(eng, st, v, want)], ('wrap', dest, target, lambda x: x))
        return DEFER
    return FALSE


@model('std::option::Option::<T>::ok_or', 'std::option::Option::<T>::ok_or_else')
def _ok_or(eng, st, fr, t, args, dest, target):
    vn, v = variant_of(eng, st, args[0], OPT)
    if vn == 'Some':
        return OK(payload(eng, st, v, 'Some'))
    if t['callee']['decl'].endswith('ok_or_else'):
        eng.call_callable(st, args[1], [], ('wrap', dest, target, ERR))
        return DEFER
    return ERR(args[1])


@model('std::cmp::Ord::min', 'std::cmp::Ord::max', 'std::f64::<impl f64>::min', 'std::f64::<impl f64>::max',
       'core::f64::<impl f64>::min', 'core::f64::<impl f64>::max')
def _minmax(eng, st, fr, t, args, dest, target):
    nm = 'max' if t['callee']['decl'].endswith('max') else 'min'
    a, b = eng.deref_arg(st, args[0]) if False else args[0], args[1]
    if is_const(a) and is_const(b) and cval(a) is not None and cval(b) is not None:
        try:
            return a if ((cval(a) >= cval(b)) == (nm == 'max')) else b
        except TypeError:
            pass
    return ('app', 'std::cmp::Ord::' + nm, (a, b))


@model('<std::sync::mpsc::Receiver<T> as std::iter::IntoIterator>::into_iter', 'std::sync::mpsc::Receiver::<T>::iter',
       "<&'a std::sync::mpsc::Receiver<T> as std::iter::IntoIterator>::into_iter")
def _rx_into_iter(eng, st, fr, t, args, dest, target):
    return ('iter', 'recv', eng.deref_arg(st, args[0]))


@model('<std::sync::mpsc::IntoIter<T> as std::iter::Iterator>::next', "<std::sync::mpsc::Iter<'a, T> as std::iter::Iterator>::next")
def _rx_next(eng, st, fr, t, args, dest, target):
    it = deref(eng, st, args[0])
    v = it[2] if it[0] == 'iter' and it[1] == 'recv' else it
    lid = eng.enclosing_loop(fr)
    eng.event(st, 'recv', receiver=v, fn=fr.body.path, loop=lid)
    return ite(('iterhas', lid, ('recv', v)), SOME(('iterval', lid, ('recv', v))), NONE)


@model('<chrono::NaiveDate as std::ops::AddAssign<chrono::TimeDelta>>::add_assign')
def _date_add_assign(eng, st, fr, t, args, dest, target):
    r, p = ptr_of(eng, st, args[0])
    old = eng.load(st, r, p)
    eng.store(st, r, p, ('app', '<chrono::NaiveDate as std::ops::Add<chrono::TimeDelta>>::add', (eng.purify(st, old), eng.purify(st, args[1]))))
    return UNIT


@model('chrono::NaiveDate::signed_duration_since')
def _signed_duration_since(eng, st, fr, t, args, dest, target):
    return ('app', '<chrono::NaiveDate as std::ops::Sub>::sub', (eng.purify(st, args[0]), eng.purify(st, args[1])))


@model('std::ops::FnOnce::call_once', 'std::ops::Fn::call', 'std::ops::FnMut::call_mut')
def _call_trait(eng, st, fr, t, args, dest, target):
    f = eng.force(st, args[0])
    if isinstance(f, tuple) and f and f[0] == 'ref':
        f = eng.force(st, eng.load(st, f[1], f[2]))
    tup = eng.force(st, args[1]) if len(args) > 1 else ('tuple', ())
    if not (isinstance(f, tuple) and f and f[0] in ('fn', 'closure')) or not (isinstance(tup, tuple) and tup and tup[0] == 'tuple'):
        import os
        if os.environ.get('IPT_DEBUG'):
            print('CALL-FALLBACK', repr(f)[:300])
        return ('app', 'call', tuple(eng.purify(st, a) for a in args))
    eng.call_callable(st, f, list(tup[1]), ('wrap', dest, target, lambda x: x))
    return DEFER


# ---------------------------------------------------------------------------------------------------------------
# text: predicates of constant strings and characters fold to constants (used to evaluate a text route on witness spellings);
# on anything that is not a constant they stay uninterpreted
def _const_str(eng, st, v):
    v = eng.deref_arg(st, v)
    if is_const(v) and isinstance(cval(v), str):
        return cval(v)
    return None


def _const_char(eng, st, v):
    v = eng.deref_arg(st, v)
    if is_const(v) and v[1] == 'char' and isinstance(cval(v), int):
        return chr(cval(v))
    return None


@model('core::str::<impl str>::chars', 'std::str::<impl str>::chars')
def _str_chars(eng, st, fr, t, args, dest, target):
    s = _const_str(eng, st, args[0])
    if s is None:
        return _opaque(eng, st, t, args)
    return ('iter', 'val', ('vec', tuple(C('char', ord(ch)) for ch in s)))


@model('core::str::<impl str>::bytes', 'std::str::<impl str>::bytes')
def _str_bytes(eng, st, fr, t, args, dest, target):
    s = _const_str(eng, st, args[0])
    if s is None:
        return _opaque(eng, st, t, args)
    return ('iter', 'val', ('vec', tuple(C('u8', b) for b in s.encode())))


_CHAR_PREDS = {
    'is_ascii_alphabetic': lambda c: c.isascii() and c.isalpha(),
    'is_alphabetic': lambda c: c.isalpha(),
    'is_ascii_digit': lambda c: c.isascii() and c.isdigit(),
    'is_numeric': lambda c: c.isnumeric(),
    'is_ascii_alphanumeric': lambda c: c.isascii() and c.isalnum(),
    'is_alphanumeric': lambda c: c.isalnum(),
    'is_whitespace': lambda c: c.isspace(),
    'is_ascii_whitespace': lambda c: c in ' \t\n\x0c\r',
    'is_ascii_punctuation': lambda c: c.isascii() and (33 <= ord(c) <= 47 or 58 <= ord(c) <= 64 or 91 <= ord(c) <= 96 or 123 <= ord(c) <= 126),
    'is_ascii_uppercase': lambda c: c.isascii() and c.isupper(),
    'is_ascii_lowercase': lambda c: c.isascii() and c.islower(),
    'is_ascii': lambda c: c.isascii(),
    'is_ascii_hexdigit': lambda c: c in '0123456789abcdefABCDEF',
}


def _char_pred(f):
    def m(eng, st, fr, t, args, dest, target):
        c = _const_char(eng, st, args[0])
        if c is None:
            return _opaque(eng, st, t, args)
        return cbool(bool(f(c)))
    return m


for _n, _f in _CHAR_PREDS.items():
    MODELS[f'core::char::methods::<impl char>::{_n}'] = _char_pred(_f)
    MODELS[f'std::char::methods::<impl char>::{_n}'] = _char_pred(_f)


def _str_pred(f, nargs=1):
    def m(eng, st, fr, t, args, dest, target):
        s = _const_str(eng, st, args[0])
        if s is None:
            return _opaque(eng, st, t, args)
        if nargs == 1:
            return f(s)
        p = _const_str(eng, st, args[1])
        if p is None:
            p = _const_char(eng, st, args[1])
        if p is None:
            return _opaque(eng, st, t, args)
        return f(s, p)
    return m


for _pre in ('core::str::<impl str>::', 'std::str::<impl str>::'):
    MODELS[_pre + 'is_empty'] = _str_pred(lambda s: cbool(s == ''))
    MODELS[_pre + 'len'] = _str_pred(lambda s: C('usize', len(s.encode())))
    MODELS[_pre + 'trim'] = _str_pred(lambda s: C('&str', s.strip()))
    MODELS[_pre + 'trim_start'] = _str_pred(lambda s: C('&str', s.lstrip()))
    MODELS[_pre + 'trim_end'] = _str_pred(lambda s: C('&str', s.rstrip()))
    MODELS[_pre + 'is_ascii'] = _str_pred(lambda s: cbool(s.isascii()))
    MODELS[_pre + 'contains'] = _str_pred(lambda s, p: cbool(p in s), 2)
    MODELS[_pre + 'starts_with'] = _str_pred(lambda s, p: cbool(s.startswith(p)), 2)
    MODELS[_pre + 'ends_with'] = _str_pred(lambda s, p: cbool(s.endswith(p)), 2)


@model('std::hint::must_use', 'core::hint::must_use')
def _must_use(eng, st, fr, t, args, dest, target):
    return args[0]


@model('<T as std::convert::TryInto<U>>::try_into')
def _try_into(eng, st, fr, t, args, dest, target):
    # the blanket impl: U::try_from(self)
    ga = t['callee'].get('gargs') or []
    if len(ga) >= 2:
        T, U = ga[0], ga[1]
        for p, b in eng.facts.bodies.items():
            io = b.impl_of
            if io and (io.get('trait') or '').endswith('convert::TryFrom') and io.get('self_ty') == U and b.arg_count == 1 and \
                    b.locals[1]['s'] == T and p.split('::')[-1] == 'try_from':
                eng.push_call(st, b, [args[0]], dest, target, None, None)
                return DEFER
    return _opaque(eng, st, t, args)


@model('std::option::Option::<T>::take', 'core::option::Option::<T>::take')
def _opt_take(eng, st, fr, t, args, dest, target):
    r, p = ptr_of(eng, st, args[0])
    v = eng.load(st, r, p)
    eng.store(st, r, p, NONE)
    return v


@model('std::iter::Iterator::peekable')
def _peekable(eng, st, fr, t, args, dest, target):
    # a Peekable walks the same elements as the iterator it wraps
    return args[0]


@model('std::iter::Peekable::<I>::peek', 'std::iter::Peekable::<I>::peek_mut')
def _peek(eng, st, fr, t, args, dest, target):
    # whether another element follows: a condition of its own per loop iteration (it does not consume anything)
    it = eng.purify(st, eng.deref_arg(st, args[0]))
    lid = eng.enclosing_loop(fr)
    return ite(('iterhas', lid, ('peek', it)), SOME(('iterval', lid, ('peek', it))), NONE)


# integer helpers on constants (otherwise uninterpreted: the formula comparator reads them as atoms)
def _int_fold(f):
    def m(eng, st, fr, t, args, dest, target):
        vs = [eng.force(st, a) for a in args]
        if all(is_const(v) and isinstance(cval(v), int) and not isinstance(cval(v), bool) for v in vs):
            try:
                return C(vs[0][1], f(*[cval(v) for v in vs]))
            except ZeroDivisionError:
                raise PathEnd('panic', ('division-by-zero', fr.body.path, t.get('span')))
        return _opaque(eng, st, t, args)
    return m


for _w in ('i32', 'i64', 'isize', 'i16', 'i8'):
    for _pre in ('core::num::<impl %s>::' % _w, 'std::num::<impl %s>::' % _w):
        MODELS[_pre + 'rem_euclid'] = _int_fold(lambda a, b: a - abs(b) * (a // abs(b)))
        MODELS[_pre + 'div_euclid'] = _int_fold(lambda a, b: (a // b) if b > 0 else -(a // -b))
        MODELS[_pre + 'abs'] = _int_fold(lambda a: abs(a))


# f64 classification on constants (witness evaluation of the numeric route)
def _f64_pred(f, short):
    def m(eng, st, fr, t, args, dest, target):
        v = eng.deref_arg(st, args[0])
        if is_const(v) and isinstance(cval(v), (int, float)) and not isinstance(cval(v), bool):
            return cbool(bool(f(float(cval(v)))))
        from .engine import F64_METHODS
        if ('core::f64::<impl f64>::' + short) in F64_METHODS:
            return ('app', short, tuple(args))      # the uninterpreted form the rules know (is_nan, is_finite)
        return _opaque(eng, st, t, args)
    return m


import math as _math4
_F64_PREDS = {
    'is_nan': lambda x: x != x,
    'is_infinite': lambda x: x in (float('inf'), float('-inf')),
    'is_finite': lambda x: x == x and x not in (float('inf'), float('-inf')),
    'is_normal': lambda x: x == x and x not in (float('inf'), float('-inf')) and abs(x) >= 2.2250738585072014e-308,
    'is_subnormal': lambda x: x != 0.0 and abs(x) < 2.2250738585072014e-308,
    'is_sign_negative': lambda x: _math4.copysign(1.0, x) < 0,
    'is_sign_positive': lambda x: _math4.copysign(1.0, x) > 0,
}
for _n, _f in _F64_PREDS.items():
    MODELS[f'core::f64::<impl f64>::{_n}'] = _f64_pred(_f, _n)
    MODELS[f'std::f64::<impl f64>::{_n}'] = _f64_pred(_f, _n)
