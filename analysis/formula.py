"""Comparison of an integer formula found in the code with a reference formula (C17).

Both sides are normalised to polynomials over atoms.  Atoms are opaque leaf terms (parameters, loop values, library
results, ite terms) and the non-polynomial integer operations floor / trunc / truncated division / remainders / abs
applied to normalised polynomials.  All opaque leaves are assumed to be integer valued (true for the calendar code:
day numbers, years, months, chrono's year()/ordinal()); casts between numeric types are then the identity unless they
truncate a non-integer polynomial.

    compare(ref, code) -> 'equal'      the normal forms coincide
                          'different'  same atoms up to the numbers inside them, different numbers: the two formulas are
                                       different functions (atoms are treated as algebraically independent)
                          'unknown'    the code is written with other operations: not decided
"""
import math
from .engine import is_const, cval, intern


def _num(t):
    if is_const(t) and isinstance(cval(t), (int, float)) and not isinstance(cval(t), bool):
        return float(cval(t))
    return None


def _is_int_const(t):
    return is_const(t) and isinstance(cval(t), int) and not isinstance(cval(t), bool)


def freeze(p):
    return tuple(sorted(p.items(), key=lambda kv: (len(kv[0]), hash(kv[0]))))


def thaw(fp):
    return dict(fp)


def padd(a, b, s=1.0):
    out = dict(a)
    for m, c in b.items():
        out[m] = out.get(m, 0.0) + s * c
    return {m: c for m, c in out.items() if abs(c) > 1e-12}


def pmul(a, b):
    out = {}
    for m1, c1 in a.items():
        for m2, c2 in b.items():
            m = tuple(sorted(m1 + m2, key=hash))
            out[m] = out.get(m, 0.0) + c1 * c2
    return {m: c for m, c in out.items() if abs(c) > 1e-12}


def const_of(p):
    """the value if the polynomial is a constant"""
    if not p:
        return 0.0
    if set(p) == {()}:
        return p[()]
    return None


def integer_valued(p):
    return all(abs(c - round(c)) < 1e-9 for c in p.values())


class Canon:
    """normaliser with a memo (terms are hash-consed: the memo is keyed by identity)"""

    def __init__(self, lower_bounds=None, trunc_as_floor=False):
        self.trunc_as_floor = trunc_as_floor   # read every float->int truncation as a floor (to find out whether that is the only difference)
        self.memo = {}
        self.keep = []
        self.lb = {}          # interned leaf term -> known lower bound
        for t, v in (lower_bounds or {}).items():
            self.lb[intern(t)] = float(v)

    def set_lower_bound(self, t, v):
        self.lb[intern(t)] = float(v)
        self.memo.clear()

    def lower_bound(self, p):
        """lower bound of a polynomial from the known bounds of its leaves (None = unknown)"""
        tot = 0.0
        for m, c in p.items():
            if m == ():
                tot += c
            elif len(m) == 1 and m[0][0] == 'p' and c > 0 and m[0][1] in self.lb:
                tot += c * self.lb[m[0][1]]
            elif len(m) == 1 and m[0][0] in ('floor', 'tdiv', 'abs', 'rem_euclid') and c > 0 and m[0][0] in ('abs', 'rem_euclid'):
                tot += 0.0
            else:
                return None
        return tot

    def cf(self, t):
        k = id(t)
        if k in self.memo:
            return self.memo[k]
        r = self._cf(t)
        self.memo[k] = r
        self.keep.append(t)
        return r

    def atom(self, kind, p, *extra):
        if kind == 'floor' and not extra:
            # floor(I + R) = I + floor(R) for the integer-valued part I (integer coefficients on integer-valued atoms)
            # every coefficient on integer-valued atoms is split into its integer part and a fraction in [0, 1)
            ipart, rest = {}, {}
            for m, c in p.items():
                if all(a[0] in ('p', 'floor', 'tdiv', 'trunc', 'abs', 'rem', 'rem_euclid') for a in m):
                    ci = math.floor(c + 1e-12)
                    fr = c - ci
                    if abs(fr) < 1e-12:
                        fr = 0.0
                    if ci:
                        ipart[m] = float(ci)
                    if fr:
                        rest[m] = fr
                else:
                    rest[m] = c
            if ipart and rest:
                cr = const_of(rest)
                if cr is not None:
                    return padd(ipart, {(): float(math.floor(cr))} if math.floor(cr) else {})
                return padd(ipart, {(('floor', freeze(rest)),): 1.0})
            if ipart and not rest:
                return dict(ipart)
        return {((kind, freeze(p)) + extra,): 1.0}

    def _cf(self, t):
        n = _num(t)
        if n is not None:
            return {(): n} if n != 0 else {}
        if not isinstance(t, tuple) or not t:
            return {(('p', t),): 1.0}
        t = intern(t)
        tag = t[0]
        if tag == 'bin':
            op = t[1]
            if op in ('Add', 'Sub'):
                return padd(self.cf(t[2]), self.cf(t[3]), 1.0 if op == 'Add' else -1.0)
            if op == 'Mul':
                return pmul(self.cf(t[2]), self.cf(t[3]))
            if op == 'Div':
                k = _num(t[3])
                if k is not None and k != 0:
                    a = self.cf(t[2])
                    if _is_int_const(t[3]):
                        # integer division truncates
                        ca = const_of(a)
                        if ca is not None:
                            return {(): float(math.trunc(ca / k))} if math.trunc(ca / k) else {}
                        lb = self.lower_bound(a)
                        if k > 0 and lb is not None and lb >= 0:
                            # a non-negative dividend: truncation and floor coincide
                            return self.atom('floor', {m: c / k for m, c in a.items()})
                        return self.atom('tdiv', a, k)
                    return {m: c / k for m, c in a.items()}
            if op == 'Rem':
                k = _num(t[3])
                if k is not None and k != 0:
                    a = self.cf(t[2])
                    ca = const_of(a)
                    if ca is not None:
                        v = math.fmod(ca, k)
                        return {(): v} if v else {}
                    return self.atom('rem', a, k)
        if tag == 'un' and t[1] == 'Neg':
            return {m: -c for m, c in self.cf(t[2]).items()}
        if tag == 'cast':
            a = self.cf(t[2])
            kind = str(t[3]) if len(t) > 3 else ''
            if 'FloatToInt' in kind and not integer_valued(a):
                ca = const_of(a)
                if ca is not None:
                    return {(): float(math.trunc(ca))} if math.trunc(ca) else {}
                lb = self.lower_bound(a)
                if self.trunc_as_floor or (lb is not None and lb >= 0):
                    return self.atom('floor', a)
                return self.atom('trunc', a)
            return a
        if tag == 'app':
            f = t[1]
            if f == 'floor' and len(t[2]) == 1:
                a = self.cf(t[2][0])
                ca = const_of(a)
                if ca is not None:
                    return {(): float(math.floor(ca))} if math.floor(ca) else {}
                if integer_valued(a):
                    return a
                return self.atom('floor', a)
            if f.endswith('::div_euclid') and len(t[2]) == 2:
                k = _num(t[2][1])
                if k is not None and k > 0:
                    a = self.cf(t[2][0])
                    ca = const_of(a)
                    if ca is not None:
                        return {(): float(math.floor(ca / k))} if math.floor(ca / k) else {}
                    return self.atom('floor', {m: c / k for m, c in a.items()})
            if (f == 'abs' or f.endswith('::abs') or f.endswith('::unsigned_abs')) and len(t[2]) == 1:
                a = self.cf(t[2][0])
                ca = const_of(a)
                if ca is not None:
                    return {(): abs(ca)} if ca else {}
                return self.atom('abs', a)
            if (f == 'rem_euclid' or f.endswith('::rem_euclid')) and len(t[2]) == 2:
                k = _num(t[2][1])
                if k is not None and k != 0:
                    a = self.cf(t[2][0])
                    ca = const_of(a)
                    if ca is not None:
                        v = ca - abs(k) * math.floor(ca / abs(k))
                        return {(): v} if v else {}
                    return self.atom('rem_euclid', a, k)
        return {(('p', t),): 1.0}


def skel_atom(a):
    """the atom with the numbers inside it erased"""
    if a[0] == 'p':
        return a
    if a[0] == 'tdiv':
        # a truncating quotient has the shape of a floor quotient; with a possibly negative dividend it is a different function
        return ('floor', skel_poly(thaw(a[1])))
    return (a[0], skel_poly(thaw(a[1])))


def skel_poly(p):
    return frozenset(tuple(sorted((skel_atom(a) for a in m), key=hash)) for m in p if m != ())


def atom_skels(p):
    out = set()
    for m in p:
        for a in m:
            out.add(skel_atom(a))
    return out


def poly_eq(a, b, tol=1e-9):
    for m in set(a) | set(b):
        x, y = a.get(m, 0.0), b.get(m, 0.0)
        if abs(x - y) > tol * max(1.0, abs(x), abs(y)):
            return False
    return True


def compare_polys(p, q):
    if poly_eq(p, q):
        return 'equal'
    sp, sq = atom_skels(p), atom_skels(q)
    if sp <= sq or sq <= sp:
        return 'different'
    return 'unknown'


def show_poly(p, show):
    def sa(a):
        if a[0] == 'p':
            return show(a[1], maxd=3)[:40]
        extra = ''.join(f',{x:g}' for x in a[2:])
        return f'{a[0]}({show_poly(thaw(a[1]), show)}{extra})'
    parts = []
    for m, c in sorted(p.items(), key=lambda kv: (len(kv[0]), hash(kv[0]))):
        parts.append(f'{c:+g}' + ''.join('*' + sa(a) for a in m))
    return ' '.join(parts) or '0'
