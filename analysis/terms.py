"""Term utilities: pretty printer, traversal, substitution."""


def show(v, d=0, maxd=8):
    if not isinstance(v, tuple):
        return repr(v)
    if not v:
        return '()'
    if d > maxd:
        return '…'
    k = v[0]
    if not isinstance(k, str):
        return '[' + ', '.join(show(a, d + 1, maxd) for a in v) + ']'
    try:
        if k == 'c':
            return f"{v[3] or v[2]}"
        if k == 'param':
            return f"${v[1]}"
        if k == 'field':
            return f"{show(v[1], d + 1, maxd)}.{v[2]}"
        if k == 'app':
            return f"{v[1].split('::')[-1]}({', '.join(show(a, d + 1, maxd) for a in v[2])})"
        if k == 'bin':
            return f"({show(v[2], d + 1, maxd)} {v[1]} {show(v[3], d + 1, maxd)})"
        if k == 'un':
            return f"{v[1]}({show(v[2], d + 1, maxd)})"
        if k == 'ite':
            return f"ite({show(v[1], d + 1, maxd)} ? {show(v[2], d + 1, maxd)} : {show(v[3], d + 1, maxd)})"
        if k == 'enum':
            nm = v[2]
            return f"{nm}({', '.join(show(a, d + 1, maxd) for a in v[4])})" if v[4] else nm
        if k in ('tuple', 'array', 'vec'):
            return k[0] + '(' + ', '.join(show(a, d + 1, maxd) for a in v[1]) + ')'
        if k == 'map':
            return '{' + ', '.join(f"{show(kk, d + 1, maxd)}: {show(vv, d + 1, maxd)}" for kk, vv in v[2]) + \
                (f" | base={show(v[1], d + 1, maxd)}" if v[1] else '') + '}'
        if k == 'mapget':
            return f"{show(v[1], d + 1, maxd)}[{show(v[2], d + 1, maxd)}]"
        if k == 'ref':
            return f"&{v[1][:3] if v[1][0] != 'S' else 'S:' + show(v[1][1], d + 1, maxd)}{list(v[2])}"
        if k == 'elem':
            return f"{show(v[1], d + 1, maxd)}[{show(v[2], d + 1, maxd)}]"
        if k == 'cast':
            return f"({show(v[2], d + 1, maxd)} as {v[1]})"
        if k == 'discr':
            return f"discr({show(v[1], d + 1, maxd)})"
        if k == 'loopval':
            return f"loopval{v[1][1]}(init={show(v[2], d + 1, maxd)})"
        if k == 'refcell':
            return f"Cell<{show(v[1], d + 1, maxd)}>"
        if k == 'closure':
            return f"closure {v[1].split('::')[-2:]}"
        if k == 'fn':
            return f"fn {v[1]}"
    except (IndexError, TypeError):
        pass
    return k + '(' + ', '.join(show(a, d + 1, maxd) for a in v[1:]) + ')'


def subterms(t):
    """all distinct sub-tuples (by identity) of a term, pre-order"""
    seen = set()
    st = [t]
    while st:
        x = st.pop()
        if not isinstance(x, tuple) or id(x) in seen:
            continue
        seen.add(id(x))
        yield x
        st.extend(x)


def contains(t, pred):
    for x in subterms(t):
        if pred(x):
            return True
    return False


def size(t):
    return sum(1 for _ in subterms(t))
