"""Analysis context: loaded facts, role-based anchors (DESIGN 3.2), engine factory."""
import re
from .facts import Facts, callee_name
from . import engine as E


class AnchorLost(Exception):
    def __init__(self, role, msg=''):
        super().__init__(f'{role}: {msg}' if msg else role)
        self.role = role


PRAYERS = ['Imsaak', 'Fajr', 'Shurooq', 'Dhuhr', 'Asr', 'Maghrib', 'Isha']
SIX = ['Fajr', 'Shurooq', 'Dhuhr', 'Asr', 'Maghrib', 'Isha']


def last_seg(path):
    return path.split('::')[-1]


class Context:
    def __init__(self, paths, tier):
        self.tier = tier
        self.paths = paths
        self.lib = Facts(paths['lib'])
        self.bin = Facts(paths['bin'])
        self.tests = [Facts(p) for p in paths.get('tests', [])] if tier == 'thorough' else []
        self._roles = {}

    def n_bodies(self):
        return len(self.lib.bodies) + len(self.bin.bodies) + sum(len(t.bodies) for t in self.tests)

    # ------------------------------------------------------------ lookups
    def pub_fn(self, name, self_ty=None):
        """public function of the library by its API name (last path segment),
        optionally an inherent method of the type named `self_ty`"""
        key = ('pub_fn', name, self_ty)
        if key in self._roles:
            return self._roles[key]
        cands = []
        for p, b in self.lib.bodies.items():
            if b.kind not in ('Fn', 'AssocFn') or last_seg(p) != name:
                continue
            if b.vis != 'public':
                continue
            if self_ty is None:
                if b.kind == 'Fn':
                    cands.append(p)
            else:
                io = b.impl_of or {}
                if io and io.get('trait') is None and last_seg(io.get('self_ty', '')) == self_ty:
                    cands.append(p)
        if len(cands) != 1:
            raise AnchorLost(f'pub fn {self_ty + "::" if self_ty else ""}{name}', f'{len(cands)} candidates')
        self._roles[key] = cands[0]
        return cands[0]

    def adt(self, name, facts=None):
        facts = facts or self.lib
        c = [p for p in facts.adts if last_seg(p) == name]
        if len(c) != 1:
            raise AnchorLost(f'type {name}', f'{len(c)} candidates')
        return c[0]

    def variants(self, adt_name):
        a = self.lib.adts[self.adt(adt_name)]
        return [v['name'] for v in a['variants']]

    def prayer_key(self, name):
        adt = self.adt('Prayer')
        a = self.lib.adts[adt]
        for i, v in enumerate(a['variants']):
            if v['name'] == name:
                return E.mk_enum(adt, name, i, ())
        raise AnchorLost(f'Prayer::{name}')

    def enum_val(self, adt_name, vname, fields=()):
        adt = self.adt(adt_name)
        a = self.lib.adts[adt]
        for i, v in enumerate(a['variants']):
            if v['name'] == vname:
                return E.mk_enum(adt, vname, i, fields)
        raise AnchorLost(f'{adt_name}::{vname}')

    # -------------------------------------------------------------- roles
    def reach(self, root):
        key = ('reach', root)
        if key not in self._roles:
            self._roles[key] = self.lib.reachable_from(root)
        return self._roles[key]

    def role(self, name):
        if name in self._roles:
            return self._roles[name]
        v = getattr(self, '_role_' + name)()
        self._roles[name] = v
        return v

    def _ret_ty(self, p):
        return self.lib.bodies[p].locals[0]['s']

    def _role_dt(self):
        return self.pub_fn('prayer_times_dt')

    def _role_hours_builder(self):
        """conventional-hours builder: reachable from prayer_times_dt, returns
        HashMap<Prayer, Result<f64, ()>> and inserts into a map"""
        prayer = self.adt('Prayer')
        out = []
        for p in self.reach(self.role('dt')):
            b = self.lib.bodies[p]
            if b.kind == 'Promoted':
                continue
            rt = b.locals[0]['s']
            if rt.startswith('std::collections::HashMap<' + prayer + ', std::result::Result<f64, ()>') and b.kind in ('Fn', 'AssocFn'):
                takes_map = any(b.locals[i]['s'].startswith('std::collections::HashMap<' + prayer) for i in range(1, b.arg_count + 1))
                if not takes_map:
                    out.append(p)
        if len(out) != 1:
            raise AnchorLost('conventional-hours builder', f'{len(out)} candidates: {out}')
        return out[0]

    def _role_eph_type(self):
        b = self.lib.bodies[self.role('hours_builder')]
        params = self.adt('Params')
        c = []
        for i in range(1, b.arg_count + 1):
            ty = b.locals[i]
            inner = ty.get('ref') or ty
            adt = inner.get('adt')
            if adt and adt != params and adt in self.lib.adts and last_seg(adt) != 'Weather':
                c.append(adt)
        if len(c) != 1:
            raise AnchorLost('ephemeris type', str(c))
        return c[0]

    def _role_eph_ctors(self):
        t = self.role('eph_type')
        return sorted(p for p, b in self.lib.bodies.items()
                      if b.kind in ('Fn', 'AssocFn') and b.locals[0].get('adt') == t and not b.derived)

    def _role_policy_layer(self):
        """function reachable from prayer_times_dt returning
        HashMap<Prayer, Result<PH, ()>> that takes the conventional map by value"""
        prayer = self.adt('Prayer')
        out = []
        for p in self.reach(self.role('dt')):
            b = self.lib.bodies[p]
            if b.kind not in ('Fn', 'AssocFn'):
                continue
            rt = b.locals[0]
            if rt.get('adt') == 'std::collections::HashMap' and rt['args'] and rt['args'][0].get('adt') == prayer:
                v = rt['args'][1]
                if v.get('adt') == 'std::result::Result' and v['args'][0].get('adt') in self.lib.adts:
                    # takes the conventional map as an argument
                    for i in range(1, b.arg_count + 1):
                        if b.locals[i]['s'].startswith('std::collections::HashMap<' + prayer + ', std::result::Result<f64, ()>'):
                            out.append(p)
        if len(out) != 1:
            raise AnchorLost('policy layer', f'{len(out)} candidates: {out}')
        return out[0]

    def _role_ph_type(self):
        b = self.lib.bodies[self.role('policy_layer')]
        return b.locals[0]['args'][1]['args'][0]['adt']

    def _role_ph_fields(self):
        """(value field index/name, flag field index/name) of the Ok payload"""
        a = self.lib.adts[self.role('ph_type')]
        fs = a['variants'][0]['fields']
        val = [(i, f['name']) for i, f in enumerate(fs) if f['ty']['s'] == 'f64']
        flg = [(i, f['name']) for i, f in enumerate(fs) if f['ty']['s'] == 'bool']
        if len(val) != 1 or len(flg) != 1:
            raise AnchorLost('PH payload shape', str(fs))
        return val[0], flg[0]

    def _role_time_converter(self):
        """the function reachable from prayer_times_dt that takes (&Params, Prayer, f64), returns NaiveTime and (transitively)
        builds it with NaiveTime::from_hms_opt"""
        out = []
        params, prayer = self.adt('Params'), self.adt('Prayer')
        for p in self.reach(self.role('dt')):
            b = self.lib.bodies[p]
            if b.kind not in ('Fn', 'AssocFn') or b.locals[0]['s'] != 'chrono::NaiveTime':
                continue
            tys = [b.locals[i] for i in range(1, b.arg_count + 1)]
            if not (any((t.get('ref') or {}).get('adt') == params for t in tys) and any(t.get('adt') == prayer for t in tys)
                    and any(t['s'] == 'f64' for t in tys)):
                continue
            builds = False
            for q in self.reach(p):
                if q in self.lib.bodies and any((callee_name(t) or '').endswith('NaiveTime::from_hms_opt')
                                                for _, t in self.lib.bodies[q].calls()):
                    builds = True
                    break
            if builds:
                out.append(p)
        if len(out) == 1:
            return out[0]
        out = []
        for p in self.reach(self.role('dt')):
            b = self.lib.bodies[p]
            if b.kind not in ('Fn', 'AssocFn'):
                continue
            if b.locals[0]['s'] == 'chrono::NaiveTime' and any(
                    (callee_name(t) or '').endswith('NaiveTime::from_hms_opt') for _, t in b.calls()):
                out.append(p)
        if len(out) != 1:
            raise AnchorLost('time converter', f'{len(out)} candidates')
        return out[0]

    def _role_normalisers(self):
        """default methods of the trait implemented for f64 whose bodies use floor"""
        traits = set()
        for im in self.lib.impls:
            if im['self_ty'] == 'f64' and im['trait'] and im['trait'] in {b.impl_of.get('trait_default') for b in self.lib.bodies.values() if b.impl_of and 'trait_default' in b.impl_of}:
                traits.add(im['trait'])
        out = []
        for p, b in self.lib.bodies.items():
            if b.impl_of and b.impl_of.get('trait_default') in traits:
                out.append(p)
        return sorted(out)

    # ------------------------------------------------------------- engine
    def engine(self, facts=None, opaque_roles=('normalisers',), **kw):
        facts = facts or self.lib
        opaque = set()
        if facts is self.lib:
            for r in opaque_roles:
                opaque |= set(self.role(r))
        eng = E.Engine(facts, opaque=opaque, **kw)
        self._engines = getattr(self, '_engines', [])
        self._engines.append(eng)
        return eng

    def unmodelled_library_calls(self):
        """names of std/core/alloc functions that some engine of this context met without having a model for them"""
        out = {}
        for eng in getattr(self, '_engines', []):
            for n, k in eng.unmodelled.items():
                if n.startswith(('std::', 'core::', 'alloc::')) or (n.startswith('<') and (' as std::' in n or ' as core::' in n or ' as alloc::' in n)
                                                                     and 'chrono::' not in n.split(' as ')[0]):
                    out[n] = out.get(n, 0) + k
        return out


def short_fn(p):
    return re.sub(r'^.*?([A-Za-z_0-9]+::[A-Za-z_0-9{}#]+)$', r'\1', p)
