"""Thorough tier: compile-fail witnesses (rustdoc `compile_fail,E....` with compiling twins) against /repo as an external user."""
import os
import re
import shutil
import subprocess
from .extract import CACHE, VERIF, REPO


def run(rep, rule='R18.W'):
    src = os.path.join(VERIF, 'witness', 'src', 'lib.rs')
    wd = os.path.join(CACHE, 'witness-crate')
    shutil.rmtree(wd, ignore_errors=True)
    os.makedirs(os.path.join(wd, 'src'))
    shutil.copy(src, os.path.join(wd, 'src', 'lib.rs'))
    with open(os.path.join(wd, 'Cargo.toml'), 'w') as f:
        f.write('[package]\nname = "ipt-witness"\nversion = "0.0.0"\nedition = "2021"\n[workspace]\n'
                f'[dependencies]\nislamic_prayer_times = {{ path = "{REPO}" }}\n')
    lock = os.path.join(REPO, 'Cargo.lock')
    if os.path.exists(lock):
        # the lock file of the repository pins every dependency; add our own package entry by letting cargo complete it offline
        shutil.copy(lock, os.path.join(wd, 'Cargo.lock'))
    env = dict(os.environ, CARGO_NET_OFFLINE='true', CARGO_TARGET_DIR=os.path.join(CACHE, 'target-witness'))
    r = subprocess.run(['cargo', '+nightly', 'test', '--doc', '--offline'], cwd=wd, env=env,
                       stdout=subprocess.PIPE, stderr=subprocess.STDOUT, text=True)
    out = r.stdout
    tests = re.findall(r'test (src/lib\.rs - \S+ \(line \d+\)(?: - compile fail| - compile)?) \.\.\. (\w+)', out)
    n_ok = sum(1 for _, s in tests if s == 'ok')
    n_bad = [(t, s) for t, s in tests if s != 'ok']
    if not tests:
        rep.ob(rule, 'witness-crate', None, 'witness crate could not be built: ' + out[-300:].replace('\n', ' | '))
    else:
        rep.ob(rule, 'compile-fail-witnesses', not n_bad,
               f'{n_ok} witnesses and twins behave as expected' if not n_bad else
               f'{len(n_bad)} witness(es) no longer fail to compile (or twins no longer compile): {n_bad[:3]}')
    rep.extra['witness_doctests'] = len(tests)
    shutil.rmtree(wd, ignore_errors=True)
