"""Loader for the MIR facts exported by driver/ (one JSON per crate target).

Nothing here looks at source text; everything is the type-checked program as
rustc's MIR (mir-opt-level=0) describes it.
"""
import json
import collections


def callee_name(t):
    """Resolved def-path of a Call terminator's callee (trait calls resolved
    through Instance::try_resolve by the driver when possible)."""
    c = t['callee']
    if 'indirect' in c:
        return 'indirect'
    return c.get('resolved') or c.get('decl')


def callee_decl(t):
    c = t['callee']
    if 'indirect' in c:
        return 'indirect'
    return c.get('decl')


class Body:
    def __init__(self, d, facts):
        self.d = d
        self.facts = facts
        self.path = d['path']
        self.kind = d['kind']
        self.blocks = d['blocks']
        self.locals = d['locals']
        self.arg_count = d['arg_count']
        self.span = d.get('span', '?')
        self.vis = d.get('vis')
        self.derived = d.get('derived', False)
        self.exp = d.get('exp', False)
        self.impl_of = d.get('impl_of')
        self.parent = d.get('parent')
        self.debug = d.get('debug', [])
        self._preds = None
        self._dom = None
        self._pdom = None

    # ---- CFG -------------------------------------------------------------
    def succs(self, bi, unwind=False):
        t = self.blocks[bi]['term']
        k = t['k']
        out = []
        if k == 'goto':
            out = [t['target']]
        elif k == 'switch':
            out = [b for _, b in t['targets']] + [t['otherwise']]
        elif k in ('drop', 'assert'):
            out = [t['target']]
        elif k == 'call':
            if t['target'] is not None:
                out = [t['target']]
        elif k == 'other':
            out = []
        if unwind and t.get('unwind') is not None:
            out.append(t['unwind'])
        return out

    def normal_blocks(self):
        return [i for i, b in enumerate(self.blocks) if not b['cleanup']]

    def preds(self):
        if self._preds is None:
            P = collections.defaultdict(list)
            for bi in self.normal_blocks():
                for s in self.succs(bi):
                    P[s].append(bi)
            self._preds = P
        return self._preds

    def reachable(self, start=0):
        seen = set()
        st = [start]
        while st:
            b = st.pop()
            if b in seen:
                continue
            seen.add(b)
            st.extend(self.succs(b))
        return seen

    def rpo(self):
        seen = set()
        order = []

        def dfs(b):
            stack = [(b, iter(self.succs(b)))]
            seen.add(b)
            while stack:
                n, it = stack[-1]
                adv = False
                for s in it:
                    if s not in seen:
                        seen.add(s)
                        stack.append((s, iter(self.succs(s))))
                        adv = True
                        break
                if not adv:
                    order.append(n)
                    stack.pop()
        dfs(0)
        order.reverse()
        return order

    def dominators(self):
        """Immediate-dominator based dominator sets (simple iterative)."""
        if self._dom is None:
            rpo = self.rpo()
            preds = self.preds()
            allb = set(rpo)
            dom = {b: set(allb) for b in rpo}
            dom[0] = {0}
            changed = True
            while changed:
                changed = False
                for b in rpo:
                    if b == 0:
                        continue
                    ps = [p for p in preds[b] if p in dom]
                    new = set(allb)
                    for p in ps:
                        new &= dom[p]
                    new = new | {b}
                    if new != dom[b]:
                        dom[b] = new
                        changed = True
            self._dom = dom
        return self._dom

    def dominates(self, a, b):
        return a in self.dominators().get(b, ())

    def postdominators(self):
        """Post-dominator sets w.r.t. normal (non-unwind) exits."""
        if self._pdom is None:
            blocks = list(self.reachable())
            exits = [b for b in blocks if not self.succs(b)]
            allb = set(blocks)
            pd = {b: set(allb) for b in blocks}
            for e in exits:
                pd[e] = {e}
            changed = True
            while changed:
                changed = False
                for b in blocks:
                    if b in exits:
                        continue
                    ss = self.succs(b)
                    new = set(allb)
                    for s in ss:
                        new &= pd[s]
                    new |= {b}
                    if new != pd[b]:
                        pd[b] = new
                        changed = True
            self._pdom = pd
        return self._pdom

    def ipdom(self, b):
        """immediate post-dominator w.r.t. paths that reach a `return`
        (diverging blocks are ignored), or None"""
        if not hasattr(self, '_ipdom'):
            rets = [i for i in self.normal_blocks() if self.blocks[i]['term']['k'] == 'return']
            # blocks that can reach a return
            preds = self.preds()
            can = set()
            stk = list(rets)
            while stk:
                n = stk.pop()
                if n in can:
                    continue
                can.add(n)
                stk.extend(preds[n])
            pd = {n: set(can) for n in can}
            for e in rets:
                pd[e] = {e}
            changed = True
            while changed:
                changed = False
                for n in can:
                    if n in rets:
                        continue
                    ss = [x for x in self.succs(n) if x in can]
                    new = set(can)
                    for x in ss:
                        new &= pd[x]
                    new |= {n}
                    if new != pd[n]:
                        pd[n] = new
                        changed = True
            ip = {}
            for n in can:
                cands = pd[n] - {n}
                best = None
                for c in cands:
                    if cands - {c} <= pd[c]:
                        best = c
                        break
                ip[n] = best
            self._ipdom = ip
        return self._ipdom.get(b)

    def liveness(self):
        """(live_in: block -> set(locals), addr_taken: set(locals)); classic
        backward dataflow over MIR locals (non-cleanup blocks)."""
        if hasattr(self, '_live'):
            return self._live
        addr = set()
        use = {}
        defs = {}

        def place_uses(p, acc):
            for e in p['p']:
                if isinstance(e, dict) and 'index' in e:
                    acc.add(e['index'])

        def op_uses(o, acc):
            if o['k'] in ('copy', 'move'):
                acc.add(o['place']['l'])
                place_uses(o['place'], acc)

        for bi in self.normal_blocks():
            u = set()
            d = set()
            blk = self.blocks[bi]

            def USE(l):
                if l not in d:
                    u.add(l)
            for s in blk['stmts']:
                if s['k'] != 'assign':
                    continue
                rv = s['rv']
                acc = set()
                for o in _rv_operands(rv):
                    op_uses(o, acc)
                if rv['k'] in ('ref', 'rawptr'):
                    addr.add(rv['place']['l'])
                    acc.add(rv['place']['l'])
                    place_uses(rv['place'], acc)
                if rv['k'] == 'discr':
                    acc.add(rv['place']['l'])
                pl = s['place']
                if pl['p']:
                    acc.add(pl['l'])
                    place_uses(pl, acc)
                for l in acc:
                    USE(l)
                if not pl['p']:
                    d.add(pl['l'])
            t = blk['term']
            acc = set()
            if t['k'] == 'call':
                for a in t['args']:
                    op_uses(a, acc)
                if 'indirect' in t['callee']:
                    op_uses(t['callee']['indirect'], acc)
                if t['dest']['p']:
                    acc.add(t['dest']['l'])
            elif t['k'] == 'switch':
                op_uses(t['discr'], acc)
            elif t['k'] == 'drop':
                acc.add(t['place']['l'])
            elif t['k'] == 'assert':
                op_uses(t['cond'], acc)
            elif t['k'] == 'return':
                acc.add(0)
            for l in acc:
                USE(l)
            if t['k'] == 'call' and not t['dest']['p']:
                d.add(t['dest']['l'])
            use[bi] = u
            defs[bi] = d
        live_in = {b: set() for b in use}
        changed = True
        while changed:
            changed = False
            for b in use:
                out = set()
                for sx in self.succs(b):
                    out |= live_in.get(sx, set())
                new = use[b] | (out - defs[b])
                if new != live_in[b]:
                    live_in[b] = new
                    changed = True
        self._live = (live_in, addr)
        return self._live

    def back_edges(self):
        dom = self.dominators()
        out = []
        for b in dom:
            for s in self.succs(b):
                if s in dom.get(b, ()):  # s dominates b
                    out.append((b, s))
        return out

    def natural_loops(self):
        """header -> set of blocks"""
        loops = collections.defaultdict(set)
        preds = self.preds()
        for (tail, head) in self.back_edges():
            body = {head, tail}
            st = [tail]
            while st:
                n = st.pop()
                if n == head:
                    continue
                for p in preds[n]:
                    if p not in body:
                        body.add(p)
                        st.append(p)
            loops[head] |= body
        return loops

    # ---- iteration helpers -------------------------------------------------
    def calls(self, include_cleanup=False):
        for bi, b in enumerate(self.blocks):
            if b['cleanup'] and not include_cleanup:
                continue
            t = b['term']
            if t['k'] == 'call':
                yield bi, t

    def assigns(self, include_cleanup=False):
        for bi, b in enumerate(self.blocks):
            if b['cleanup'] and not include_cleanup:
                continue
            for si, s in enumerate(b['stmts']):
                if s['k'] == 'assign':
                    yield bi, si, s

    def local_ty(self, l):
        return self.locals[l]

    def ret_ty(self):
        return self.locals[0]

    def var_name(self, l):
        for d in self.debug:
            if d['place']['l'] == l and not d['place']['p']:
                return d['name']
        return None


class Facts:
    def __init__(self, path):
        with open(path) as f:
            self.d = json.load(f)
        self.path = path
        self.crate = self.d['crate']
        self.bodies = {}
        for b in self.d['bodies']:
            self.bodies[b['path']] = Body(b, self)
        self.adts = {a['path']: a for a in self.d['adts']}
        self.impls = self.d['impls']
        self._callers = None

    def body(self, path):
        return self.bodies.get(path)

    def find_bodies(self, suffix):
        return [b for p, b in self.bodies.items() if p.endswith(suffix)]

    def promoted_body(self, of, idx):
        return self.bodies.get(f"{of}::promoted[{idx}]")

    def fn_bodies(self):
        return [b for b in self.bodies.values() if b.kind != 'Promoted']

    def closures_of(self, path):
        pre = path + '::{closure#'
        return [b for p, b in self.bodies.items() if p.startswith(pre) and b.kind == 'Closure']

    def call_graph(self):
        """path -> set of callee paths (resolved, local bodies only), closures
        created in a body are counted as callees of that body."""
        if self._callers is None:
            g = collections.defaultdict(set)
            for p, b in self.bodies.items():
                if b.kind == 'Promoted':
                    continue
                for bi, t in b.calls(include_cleanup=False):
                    n = callee_name(t)
                    if n in self.bodies:
                        g[p].add(n)
                    # fn items and closures passed as arguments
                    for a in t['args']:
                        if a['k'] == 'const' and 'fn' in a and a['fn'] in self.bodies:
                            g[p].add(a['fn'])
                for bi, si, s in b.assigns():
                    rv = s['rv']
                    if rv['k'] == 'agg' and isinstance(rv['agg'], dict) and 'closure' in rv['agg']:
                        g[p].add(rv['agg']['closure'])
                    for o in _rv_operands(rv):
                        if o['k'] == 'const' and 'fn' in o and o['fn'] in self.bodies:
                            g[p].add(o['fn'])
            self._callers = g
        return self._callers

    def reachable_from(self, root):
        g = self.call_graph()
        seen = set()
        st = [root]
        while st:
            n = st.pop()
            if n in seen:
                continue
            seen.add(n)
            st.extend(g.get(n, ()))
        return seen


def _rv_operands(rv):
    k = rv['k']
    if k in ('use', 'un', 'cast'):
        return [rv['a']]
    if k == 'bin':
        return [rv['a'], rv['b']]
    if k == 'agg':
        return rv['ops']
    return []


rv_operands = _rv_operands


# ---- pretty printer (diagnostics only) -------------------------------------
def pp_place(p):
    s = f"_{p['l']}"
    for e in p['p']:
        if e == 'deref':
            s = f"(*{s})"
        elif 'f' in e:
            s = f"{s}.{e['name'] or e['f']}"
        elif 'downcast' in e:
            s = f"({s} as {e['name']})"
        else:
            s = f"{s}[{e}]"
    return s


def pp_op(o):
    if o['k'] == 'const':
        if 'promoted' in o:
            return f"promoted[{o['promoted']}]"
        if 'f64' in o:
            return f"{o.get('named') or o['f64']}"
        if 'fn' in o:
            return f"fn {o['fn'].split('::')[-1]}"
        for k in ('int', 'bool', 'named'):
            if k in o:
                return f"const {o[k]}"
        return 'const ()'
    if o['k'] == 'other':
        return 'other'
    return ('move ' if o['k'] == 'move' else '') + pp_place(o['place'])


def pp_rv(r):
    k = r['k']
    if k == 'use':
        return pp_op(r['a'])
    if k == 'bin':
        return f"{r['op']}({pp_op(r['a'])}, {pp_op(r['b'])})"
    if k == 'un':
        return f"{r['op']}({pp_op(r['a'])})"
    if k == 'cast':
        return f"{pp_op(r['a'])} as {r['to']} [{r['kind']}]"
    if k == 'ref':
        return ('&mut ' if r['mut'] else '&') + pp_place(r['place'])
    if k == 'rawptr':
        return '&raw ' + pp_place(r['place'])
    if k == 'discr':
        return f"discriminant({pp_place(r['place'])})"
    if k == 'agg':
        a = r['agg']
        if isinstance(a, str):
            n = a
        elif 'adt' in a:
            n = a['adt'].split('::')[-1] + '::' + a.get('vname', '')
        else:
            n = 'closure ' + a.get('closure', '?').split('::')[-1]
        return f"{n}{{{', '.join(pp_op(x) for x in r['ops'])}}}"
    return 'other:' + r.get('s', '')[:60]


def pp_body(b, out=print):
    out(f"fn {b.path} args={b.arg_count}  [{b.span}]")
    for i, l in enumerate(b.locals):
        nm = b.var_name(i)
        if i <= b.arg_count or nm:
            out(f"   _{i}: {l['s'][:110]}" + (f"   // {nm}" if nm else ''))
    for bi, blk in enumerate(b.blocks):
        if blk['cleanup']:
            continue
        out(f" bb{bi}:")
        for s in blk['stmts']:
            if s['k'] == 'assign':
                out(f"    {pp_place(s['place'])} = {pp_rv(s['rv'])}")
            else:
                out(f"    {s['k']} {pp_place(s['place'])} {s.get('variant')}")
        t = blk['term']
        if t['k'] == 'call':
            n = callee_name(t)
            out(f"    {pp_place(t['dest'])} = CALL {n[:110]}({', '.join(pp_op(a) for a in t['args'])}) -> bb{t['target']}")
        elif t['k'] == 'switch':
            out(f"    switch {pp_op(t['discr'])} {t['targets']} else bb{t['otherwise']}")
        elif t['k'] == 'drop':
            out(f"    drop {pp_place(t['place'])} -> bb{t['target']}")
        elif t['k'] == 'goto':
            out(f"    goto bb{t['target']}")
        elif t['k'] == 'assert':
            out(f"    assert {pp_op(t['cond'])}=={t['expected']} {t['msg'][:50]} -> bb{t['target']}")
        else:
            out(f"    {t['k']}")


if __name__ == '__main__':
    import sys
    F = Facts(sys.argv[1])
    for name in sys.argv[2:]:
        for p, b in F.bodies.items():
            if p.endswith(name):
                pp_body(b)
