"""Path-sensitive abstract interpreter over the exported MIR.

Domain: values are *terms* (hash-consable tuples): constants, aggregates,
pointers (root, path), abstract maps / cells / vectors, and uninterpreted
terms over the entry parameters (`param`, `field`, `app`, `bin`, ...).  No
numeric value is ever computed beyond constant folding; control decisions on
non-constant data become *free conditions*, memoised per path (a finite
abstraction: predicate abstraction with trace partitioning).  Calls into the
local crate are inlined (no recursion exists in this crate), outcomes of pure
callees are merged back into `ite` terms at their return, loops are cut at
their headers (loop-variant scalars become `loopval` terms, re-arrival with an
equal abstract state is pruned).  A small table of std models (HashMap,
RefCell, Result/Option combinators, iterators) is interpreted exactly; any
other call is an uninterpreted `app` term (result only; `&mut` arguments are
havocked).

Nothing of /repo is executed: this is an abstract semantics over MIR facts.
"""
import os, sys
import itertools
from .facts import callee_name, callee_decl

# --------------------------------------------------------------------------
# term helpers


class T(tuple):
    """hash-consed term: created only through `intern`, so equal terms are the same object; the hash is cached
    (hashing / comparing plain nested tuples is exponential on DAGs with sharing)"""

    def __hash__(self):
        h = self.__dict__.get('h')
        if h is None:
            h = tuple.__hash__(self)
            self.__dict__['h'] = h
        return h

    def __eq__(self, o):
        if self is o:
            return True
        if type(o) is T:
            return False
        return tuple.__eq__(self, o)

    def __ne__(self, o):
        return not self.__eq__(o)

    def __reduce__(self):
        return (_rebuild, (tuple(self),))


_TABLE = {}


def _rebuild(items):
    t = _TABLE.get(items)
    if t is None:
        t = T(items)
        _TABLE[t] = t
    return t


def intern(v):
    if type(v) is T or not isinstance(v, tuple):
        return v
    stack = [(v, False)]
    done = {}
    while stack:
        x, ready = stack.pop()
        if ready:
            items = tuple(done[id(y)] if (isinstance(y, tuple) and type(y) is not T) else y for y in x)
            t = _TABLE.get(items)
            if t is None:
                t = T(items)
                _TABLE[t] = t
            done[id(x)] = t
        else:
            if id(x) in done:
                continue
            stack.append((x, True))
            for y in x:
                if isinstance(y, tuple) and type(y) is not T and id(y) not in done:
                    stack.append((y, False))
    return done[id(v)]


def C(ty, v, name=None):
    return ('c', ty, v, name)


UNIT = ('c', '()', None, None)
TRUE = ('c', 'bool', True, None)
FALSE = ('c', 'bool', False, None)


def cbool(b):
    return TRUE if b else FALSE


def is_const(v):
    return isinstance(v, tuple) and v and v[0] == 'c'


def cval(v):
    return v[2]


def mk_enum(adt, vname, idx, fields=()):
    return ('enum', adt, vname, idx, tuple(fields))


def OK(v):
    return mk_enum('std::result::Result', 'Ok', 0, (v,))


def ERR(v):
    return mk_enum('std::result::Result', 'Err', 1, (v,))


def SOME(v):
    return mk_enum('std::option::Option', 'Some', 1, (v,))


NONE = mk_enum('std::option::Option', 'None', 0, ())


def mk_ref(root, path=()):
    return ('ref', root, tuple(path))


def ite(c, a, b):
    if a == b:
        return a
    if c == TRUE:
        return a
    if c == FALSE:
        return b
    return ('ite', c, a, b)


class Fork(Exception):
    def __init__(self, cond, options):
        self.cond = cond
        self.options = options


class PathEnd(Exception):
    def __init__(self, kind, info=None):
        self.kind = kind
        self.info = info


class Unmodelled(Exception):
    pass


class Frame:
    __slots__ = ('fid', 'body', 'block', 'stmt', 'dest', 'target', 'cont', 'loops', 'call_site', 'self_ty', 'cparams')

    def __init__(self, fid, body, dest, target, cont=None, call_site=None):
        self.fid = fid
        self.body = body
        self.block = 0
        self.stmt = 0
        self.dest = dest
        self.target = target
        self.cont = cont
        self.loops = {}      # header -> list of state signatures seen on this path
        self.call_site = call_site
        self.self_ty = None
        self.cparams = None  # values of the const generic parameters of this instance

    def clone(self):
        f = Frame(self.fid, self.body, self.dest, self.target, self.cont, self.call_site)
        f.block = self.block
        f.stmt = self.stmt
        f.loops = {k: list(v) for k, v in self.loops.items()}
        f.self_ty = self.self_ty
        f.cparams = self.cparams
        return f


class State:
    __slots__ = ('mem', 'frames', 'asm', 'nfid', 'ntmp', 'ret', 'trace', 'pending')

    def __init__(self):
        self.mem = {}
        self.frames = []
        self.asm = {}
        self.nfid = 0
        self.ntmp = 0
        self.ret = None
        self.trace = ()
        self.pending = None

    def clone(self):
        s = State()
        s.mem = dict(self.mem)
        s.frames = [f.clone() for f in self.frames]
        s.asm = dict(self.asm)
        s.nfid = self.nfid
        s.ntmp = self.ntmp
        s.ret = self.ret
        s.trace = self.trace
        s.pending = self.pending
        return s

    def stack(self):
        return [(f.body.path, f.block) for f in self.frames]


F64_METHODS = {}
for _m in ('sin', 'cos', 'tan', 'asin', 'acos', 'atan', 'atan2', 'abs', 'floor', 'ceil', 'round', 'trunc',
           'to_radians', 'to_degrees', 'sqrt', 'powi', 'powf', 'max', 'min', 'rem_euclid', 'signum', 'fract',
           'mul_add', 'exp', 'ln', 'is_nan', 'is_finite', 'clamp', 'copysign'):
    F64_METHODS['std::f64::<impl f64>::' + _m] = _m
    F64_METHODS['core::f64::<impl f64>::' + _m] = _m


class Engine:
    def __init__(self, facts, opaque=(), max_depth=40, loop_bound=40, hooks=None):
        self.facts = facts
        self.opaque = set(opaque)
        self.recursive_calls = []
        self.max_depth = max_depth
        self.loop_bound = loop_bound
        self.log = []
        self.static_mem = {}
        self._promoted = {}
        self.hooks = hooks or {}
        self.steps = 0
        self.forks = 0
        self.unmodelled = {}     # callee -> count
        self.incomplete = []     # reasons for abstraction loss (loop bound, ...)
        self._loops_cache = {}
        self.interest = set()    # callee names whose calls are logged
        self.step_limit = 30_000_000
        self.use_cache = True
        self.loop_abstract = True   # False: loops are only unrolled (up to loop_bound), never abstracted
        self.trace_kinds = set()
        self.visited = {}
        self.dropped = 0
        self.discr_hint = {}
        self.debug_cache = False
        self.call_cache = {}
        self.cache_hits = 0

    # ------------------------------------------------------------------ log
    def event(self, st, kind, **payload):
        self.log.append(dict(kind=kind, asm=dict(st.asm), stack=st.stack(), **payload))
        if kind in self.trace_kinds:
            st.trace = st.trace + ((kind, tuple(sorted(payload.items(), key=lambda kv: kv[0]))),)

    # --------------------------------------------------------------- memory
    def getroot(self, st, root):
        if root in st.mem:
            return st.mem[root]
        if root[0] == 'S':
            return root[1]
        if root in self.static_mem:
            return self.static_mem[root]
        if root[0] == 'L':
            return ('uninit', root[2])
        raise KeyError(root)

    def project(self, st, v, el):
        """one projection step on a value"""
        v = self.force(st, v)
        k = el[0]
        tag = v[0] if isinstance(v, tuple) and v else None
        if k == 'f':
            i, name = el[1], el[2]
            if tag == 'enum':
                if i < len(v[4]):
                    return v[4][i]
                return ('field', v, name if name else i)
            if tag in ('tuple', 'array'):
                return v[1][i] if i < len(v[1]) else ('field', v, i)
            if tag == 'closure':
                return v[2][i]
            if tag == 'upd':
                if v[2] == (i, name):
                    return v[3]
                return self.project(st, v[1], el)
            if tag == 'refcell' and name == 'value':
                return v[1]
            if tag == 'ref':
                # Box / Unique / NonNull internals: the pointer itself
                return v
            return ('field', v, name if name else i)
        if k == 'v':
            if tag == 'enum':
                if v[2] != el[1]:
                    raise PathEnd('infeasible', f'downcast {el[1]} of {v[2]}')
                return v
            if tag == 'upd' and v[2] == ('v', el[1]):
                return v[3]
            return ('as', v, el[1])
        if k == 'key':
            if tag == 'map':
                for (kk, vv) in v[2]:
                    if kk == el[1]:
                        return vv
                if v[1] is None:
                    raise PathEnd('panic', ('missing-key', el[1]))
                return ('mapget', v[1], el[1])
            return ('mapget', v, el[1])
        if k == 'cell':
            if tag == 'refcell':
                return v[1]
            return ('cellof', v)
        if k == 'idx':
            if tag == 'arrset':
                if v[2] == el[1]:
                    return v[3]
                return ('elem', v, el[1])
            if tag in ('vec', 'array') and is_const(el[1]) and isinstance(cval(el[1]), int):
                items = v[1]
                i = cval(el[1])
                if i < len(items):
                    return items[i]
                raise PathEnd('panic', ('index-out-of-bounds', i, len(items)))
            return ('elem', v, el[1])
        raise Unmodelled(f'projection {el}')

    def load(self, st, root, path):
        v = self.getroot(st, root)
        for el in path:
            v = self.project(st, v, el)
        return v

    def _update(self, st, v, path, new):
        if not path:
            return new
        el = path[0]
        v = self.force(st, v)
        k = el[0]
        tag = v[0] if isinstance(v, tuple) and v else None
        if k == 'f':
            i, name = el[1], el[2]
            if tag == 'enum' and i < len(v[4]):
                fs = list(v[4])
                fs[i] = self._update(st, fs[i], path[1:], new)
                return ('enum', v[1], v[2], v[3], tuple(fs))
            if tag in ('tuple', 'array') and i < len(v[1]):
                fs = list(v[1])
                fs[i] = self._update(st, fs[i], path[1:], new)
                return (tag, tuple(fs))
            if tag == 'closure':
                fs = list(v[2])
                fs[i] = self._update(st, fs[i], path[1:], new)
                return ('closure', v[1], tuple(fs))
            if tag == 'uninit':
                return ('upd', v, (i, name), self._update(st, ('uninit', 'field'), path[1:], new))
            old = self.project(st, v, el)
            return ('upd', v, (i, name), self._update(st, old, path[1:], new))
        if k == 'v':
            if tag == 'enum':
                return self._update(st, v, path[1:], new)
            # a symbolic value seen as one of its variants (the path has tested the discriminant): the value with that
            # variant's payload updated
            old = self.project(st, v, el)
            return ('upd', v, ('v', el[1]), self._update(st, old, path[1:], new))
        if k == 'key':
            if tag == 'map':
                items = list(v[2])
                for j, (kk, vv) in enumerate(items):
                    if kk == el[1]:
                        items[j] = (kk, self._update(st, vv, path[1:], new))
                        return ('map', v[1], tuple(items))
                if v[1] is None:
                    raise PathEnd('panic', ('missing-key', el[1]))
                old = ('mapget', v[1], el[1])
                items.append((el[1], self._update(st, old, path[1:], new)))
                items.sort(key=repr)
                return ('map', v[1], tuple(items))
            # symbolic map: overlay
            old = ('mapget', v, el[1])
            return ('map', v, ((el[1], self._update(st, old, path[1:], new)),))
        if k == 'cell':
            if tag == 'refcell':
                return ('refcell', self._update(st, v[1], path[1:], new), v[2])
            raise Unmodelled('store into symbolic cell')
        if k == 'idx':
            if tag in ('vec', 'array') and is_const(el[1]):
                items = list(v[1])
                i = cval(el[1])
                if i < len(items):
                    items[i] = self._update(st, items[i], path[1:], new)
                    return (tag, tuple(items))
            old = self.project(st, v, el)
            return ('arrset', v, el[1], self._update(st, old, path[1:], new))
        raise Unmodelled(f'store {el}')

    def store(self, st, root, path, new):
        if root[0] == 'S':
            self.event(st, 'unmodelled-effect', what='store through symbolic reference', root=root)
            return
        if root[0] == 'P':
            raise Unmodelled('store into promoted')
        new = intern(new)
        if not path:
            st.mem[root] = new
            return
        st.mem[root] = intern(self._update(st, self.getroot(st, root), path, new))

    # ---------------------------------------------------------------- force
    def force(self, st, v):
        while isinstance(v, tuple) and v and v[0] == 'ite':
            c = self.decide(st, v[1])
            v = v[2] if c else v[3]
        return v

    def decide(self, st, c):
        """truth value of a boolean term on this path (fork if free)"""
        c = intern(self.force(st, c))
        if is_const(c):
            return bool(cval(c))
        if c[0] == 'un' and c[1] == 'Not':
            return not self.decide(st, c[2])
        if c[0] == 'bin' and c[1] in ('Eq', 'Ne'):
            a, b = c[2], c[3]
            if is_const(a) and not is_const(b):
                a, b = b, a
            if is_const(b) and isinstance(a, tuple) and a[0] == 'discr':
                dv = self.decide_int(st, a, None)
                r = (dv == cval(b))
                return r if c[1] == 'Eq' else not r
            if c[1] == 'Ne':
                return not self.decide(st, ('bin', 'Eq', c[2], c[3]))
        if c in st.asm:
            return st.asm[c]
        raise Fork(c, [True, False])

    def decide_int(self, st, t, listed):
        t = intern(self.force(st, t))
        if is_const(t):
            return cval(t)
        if t in st.asm:
            return st.asm[t]
        opts = None
        if t[0] == 'discr':
            opts = self.adt_discrs(self.discr_hint.get(t))
        if opts is None:
            opts = list(listed or []) + ['other']
        raise Fork(t, opts)

    def adt_discrs(self, adt):
        if adt is None:
            return None
        adt = adt.split('<')[0] if not adt.startswith('<') else adt
        if adt.startswith('core::'):
            adt = 'std::' + adt[6:]
        if adt in ('std::result::Result', 'std::option::Option', 'core::result::Result', 'core::option::Option',
                   'std::ops::ControlFlow', 'core::ops::ControlFlow'):
            return [0, 1]
        a = self.facts.adts.get(adt)
        if a and a['enum']:
            return [int(v['discr']) for v in a['variants']]
        return None

    def variant_by_discr(self, adt, d):
        a = self.facts.adts.get(adt)
        if a:
            for i, v in enumerate(a['variants']):
                if v['discr'] is not None and int(v['discr']) == d:
                    return i, v['name']
        return None, None

    def discr_of(self, st, v, adt_hint):
        v = self.force(st, v)
        tag = v[0]
        if tag == 'enum':
            a = self.facts.adts.get(v[1])
            if a and a['enum']:
                return C('isize', int(a['variants'][v[3]]['discr']))
            return C('isize', v[3])
        if tag == 'c' and v[1] == 'bool':
            return C('isize', 1 if v[2] else 0)
        t = ('discr', v)
        if adt_hint and t not in self.discr_hint:
            self.discr_hint[t] = adt_hint
        return t

    # ----------------------------------------------------------- operands
    def eval_place(self, st, fr, p):
        """-> (root, path) pointer of a MIR place"""
        root = ('L', fr.fid, p['l'])
        path = ()
        for e in p['p']:
            if e == 'deref':
                v = self.force(st, self.load(st, root, path))
                if isinstance(v, tuple) and v[0] == 'ref':
                    root, path = v[1], v[2]
                elif isinstance(v, tuple) and v[0] in ('refguard',):
                    root, path = v[1], v[2] + (('cell',),)
                elif isinstance(v, tuple) and v[0] == 'box':
                    root, path = ('S', v[1]), ()
                else:
                    root, path = ('S', v), ()
            elif 'f' in e:
                path = path + (('f', e['f'], e['name']),)
            elif 'downcast' in e:
                path = path + (('v', e['name']),)
            elif 'index' in e:
                iv = self.load(st, ('L', fr.fid, e['index']), ())
                path = path + (('idx', iv),)
            elif 'cidx' in e:
                path = path + (('idx', C('usize', e['cidx'])),)
            else:
                raise Unmodelled(f'projection {e}')
        return root, path

    def eval_operand(self, st, fr, o):
        k = o['k']
        if k in ('copy', 'move'):
            root, path = self.eval_place(st, fr, o['place'])
            return self.load(st, root, path)
        if k == 'const':
            return self.eval_const(st, o)
        raise Unmodelled(f'operand {k}')

    def eval_const(self, st, o):
        ty = o.get('ty', '?')
        if 'promoted' in o:
            return self.promoted(o['of'], o['promoted'])
        if 'cparam' in o:
            v = ((st.frames[-1].cparams if st.frames else None) or {}).get(o['cparam'])
            return C(ty, v) if v is not None else ('constx', ty, 'const param ' + o['cparam'])
        if 'closure' in o and 'fn' in o:
            return ('closure', o['closure'], ())
        if 'fn' in o:
            return ('fn', o['fn'], o.get('raw'))
        if 'f64' in o:
            f = o['f64']
            if isinstance(f, str):
                f = float(f.replace('inf', 'inf').replace('NaN', 'nan'))
            return C('f64', float(f), o.get('named'))
        if 'bool' in o:
            return cbool(o['bool'])
        if 'int' in o:
            return C(ty, int(o['int']), o.get('named'))
        if 'zst' in o:
            return UNIT if ty == '()' else C(ty, None, o.get('named'))
        if 'scalar' in o:
            d = int(o['scalar'], 16)
            if ty in self.facts.adts and self.facts.adts[ty]['enum']:
                i, name = self.variant_by_discr(ty, d)
                if name is not None:
                    return mk_enum(ty, name, i, ())
            return C(ty, d, o.get('named'))
        if 'variant' in o:
            return mk_enum(ty, o['variant'], o.get('vidx', 0), tuple(self.eval_const(st, x) for x in o.get('fields', [])))
        if 'str' in o:
            return C(ty, o['str'], o.get('named'))
        if 'refto' in o:
            return mk_ref(('S', intern(self.eval_const(st, o['refto']))), ())
        if 'elems' in o:
            items = tuple(self.eval_const(st, x) for x in o['elems'])
            return ('tuple', items) if ty.startswith('(') else ('array', items)
        return ('constx', ty, o.get('named') or o.get('other') or 'uneval')

    def promoted(self, of, idx):
        key = (of, idx)
        if key in self._promoted:
            return self._promoted[key]
        body = self.facts.promoted_body(of, idx)
        if body is None:
            v = ('constx', 'promoted', f'{of}[{idx}]')
            self._promoted[key] = v
            return v
        # promoteds are straight-line constant initialisers: evaluate them in
        # a private state whose locals live forever under 'P' roots.
        st = State()
        fr = Frame(('P', of, idx), body, None, None)
        st.frames.append(fr)
        tree = self.run_until(st, 0)
        leaves = list(leaves_of(tree))
        if len(leaves) != 1:
            v = ('constx', 'promoted', f'{of}[{idx}]')
        else:
            ls = leaves[0]
            v = ls.ret
            for r, val in ls.mem.items():
                self.static_mem[r] = val
        self._promoted[key] = v
        return v

    # ------------------------------------------------------------- rvalues
    def binop(self, st, op, a, b):
        if op.endswith('WithOverflow'):
            base = op[:-len('WithOverflow')]
            r = self.binop(st, base, a, b)
            ovf = FALSE if is_const(r) else ('ovf', base, a, b)
            return ('tuple', (r, ovf))
        if op.endswith('Unchecked'):
            op = op[:-len('Unchecked')]
        if is_const(a) and is_const(b) and cval(a) is not None and cval(b) is not None:
            x, y = cval(a), cval(b)
            try:
                if op == 'Add':
                    return C(a[1], x + y)
                if op == 'Sub':
                    return C(a[1], x - y)
                if op == 'Mul':
                    return C(a[1], x * y)
                if op == 'Div':
                    if a[1] in ('f64', 'f32'):
                        return C(a[1], x / y)
                    if y != 0:
                        return C(a[1], int(x / y))
                if op == 'Rem' and y != 0 and a[1] not in ('f64', 'f32'):
                    return C(a[1], int(x - y * int(x / y)))
                if op == 'Lt':
                    return cbool(x < y)
                if op == 'Le':
                    return cbool(x <= y)
                if op == 'Gt':
                    return cbool(x > y)
                if op == 'Ge':
                    return cbool(x >= y)
                if op == 'Eq':
                    return cbool(x == y)
                if op == 'Ne':
                    return cbool(x != y)
                if op == 'BitAnd' and isinstance(x, bool):
                    return cbool(x and y)
                if op == 'BitOr' and isinstance(x, bool):
                    return cbool(x or y)
            except (ZeroDivisionError, OverflowError, TypeError):
                pass
        if op == 'Lt' and isinstance(a, tuple) and a and a[0] == 'bounded' and is_const(b) and a[2] is not None \
                and isinstance(cval(b), int) and a[2] <= cval(b):
            return TRUE
        if op in ('Eq', 'Ne') and a == b and a[0] in ('enum',):
            return cbool(op == 'Eq')
        if op in ('Eq', 'Ne') and a[0] == 'enum' and b[0] == 'enum' and not a[4] and not b[4]:
            return cbool((a[2] == b[2]) == (op == 'Eq'))
        return ('bin', op, a, b)

    def unop(self, st, op, a):
        if is_const(a) and cval(a) is not None:
            if op == 'Not' and isinstance(cval(a), bool):
                return cbool(not cval(a))
            if op == 'Neg':
                return C(a[1], -cval(a), ('-' + a[3]) if a[3] else None)
        if op == 'Not' and a[0] == 'un' and a[1] == 'Not':
            return a[2]
        if op == 'PtrMetadata':
            n = self.seq_len(st, a)
            if n is not None:
                return C('usize', n)
            return ('app', 'len', (a,))
        return ('un', op, a)

    def seq_len(self, st, v):
        """length of the sequence a (possibly referenced) value denotes, if known"""
        n = 0
        while isinstance(v, tuple) and v and v[0] == 'ref' and n < 4:
            try:
                v = self.load(st, v[1], v[2])
            except (KeyError, PathEnd, Unmodelled, Fork):
                return None
            n += 1
        if isinstance(v, tuple) and v:
            if v[0] in ('vec', 'array'):
                return len(v[1])
            if v[0] == 'constx':
                import re
                m = re.search(r';\s*(\d+)\]$', v[1])
                if m:
                    return int(m.group(1))
        return None

    def cast(self, st, kind, a, to):
        if 'PointerCoercion' in kind or kind in ('PtrToPtr', 'Transmute', 'FnPtrToPtr'):
            return a
        if is_const(a) and cval(a) is not None and not isinstance(cval(a), bool):
            x = cval(a)
            if to in ('f64', 'f32'):
                return C(to, float(x))
            if kind.startswith('IntToInt'):
                return C(to, int(x))
            if kind.startswith('FloatToInt'):
                try:
                    return C(to, int(x))
                except (OverflowError, ValueError):
                    pass
        if a[0] == 'enum' and not a[4]:
            d = self.discr_of(st, a, None)
            return self.cast(st, 'IntToInt', C('isize', cval(d)), to)
        return ('cast', to, a, kind)

    def eval_rvalue(self, st, fr, rv):
        k = rv['k']
        if k == 'use':
            return self.eval_operand(st, fr, rv['a'])
        if k == 'repeat':
            n = rv.get('len')
            if isinstance(n, dict):
                n = (fr.cparams or {}).get(n.get('cparam'))
            if not isinstance(n, int) or n > 512:
                raise Unmodelled('array repeat of unknown length')
            v = self.eval_operand(st, fr, rv['a'])
            return ('array', (v,) * n)
        if k == 'bin':
            return self.binop(st, rv['op'], self.eval_operand(st, fr, rv['a']), self.eval_operand(st, fr, rv['b']))
        if k == 'un':
            return self.unop(st, rv['op'], self.eval_operand(st, fr, rv['a']))
        if k == 'cast':
            return self.cast(st, rv['kind'], self.eval_operand(st, fr, rv['a']), rv['to'])
        if k in ('ref', 'rawptr'):
            root, path = self.eval_place(st, fr, rv['place'])
            return mk_ref(root, path)
        if k == 'discr':
            root, path = self.eval_place(st, fr, rv['place'])
            v = self.load(st, root, path)
            return self.discr_of(st, v, rv['place'].get('ty'))
        if k == 'agg':
            ops = tuple(self.eval_operand(st, fr, o) for o in rv['ops'])
            a = rv['agg']
            if a == 'tuple':
                return ('tuple', ops)
            if a == 'array':
                return ('array', ops)
            if isinstance(a, dict) and 'adt' in a:
                return mk_enum(a['adt'], a['vname'], a['variant'], ops)
            if isinstance(a, dict) and 'closure' in a:
                return ('closure', a['closure'], ops)
            return ('agg', str(a), ops)
        if k == 'other':
            s = rv.get('s', '')
            return ('rvx', s[:80])
        raise Unmodelled(f'rvalue {k}')

    # ---------------------------------------------------------------- run
    def new_state(self):
        return State()

    def call_entry(self, path, args, asm=None):
        """Run local function `path` on argument values; returns the outcome
        tree ('leaf', state) / ('fork', cond, {val: tree}) / ('end', kind)."""
        body = self.facts.bodies[path]
        st = State()
        if asm:
            st.asm.update(asm)
        st.nfid = 1
        fr = Frame(0, body, None, None)
        st.frames.append(fr)
        for i, a in enumerate(args):
            st.mem[('L', 0, i + 1)] = intern(a)
        return self.run_until(st, 0)

    def sym_args(self, path, names=None):
        """symbolic arguments for an entry function: by-value params become
        `param` terms, reference params point at a symbolic referent."""
        body = self.facts.bodies[path]
        out = []
        for i in range(1, body.arg_count + 1):
            nm = (names[i - 1] if names and i - 1 < len(names) else None) or body.var_name(i) or f'arg{i}'
            ty = body.locals[i]
            if 'ref' in ty:
                out.append(mk_ref(('S', ('param', nm)), ()))
            else:
                out.append(('param', nm))
        return out

    def run_until(self, st, depth, stop=None):
        """Run `st` until its frame stack is `depth` deep (the frame at index
        `depth` has returned; its value is in st.ret) or until the join point
        `stop` = (fid, block, stmt, frame_index) is reached.  Forks are joined
        again at the immediate post-dominator of the branch when the states
        differ in pure data only (values become `ite` terms)."""
        while True:
            if st.pending is None:
                if len(st.frames) <= depth:
                    return ('leaf', st)
                if stop is not None:
                    if len(st.frames) <= stop[3]:
                        return ('leaf', st)
                    fr = st.frames[-1]
                    if fr.fid == stop[0] and fr.block == stop[1] and fr.stmt == stop[2]:
                        return ('leaf', st)
            try:
                sub = self.step(st)
            except Fork as f:
                self.forks += 1
                jp = self.join_point(st)
                children = {}
                for val in f.options:
                    st2 = st.clone()
                    st2.asm[intern(f.cond)] = val
                    children[val] = self.run_until(st2, depth, jp)
                tree = self.reduce(('fork', f.cond, children))
                return self.reduce(self.graft(tree, depth, stop))
            except PathEnd as e:
                if e.kind == 'panic':
                    self.event(st, 'panic', info=e.info)
                return ('end', e.kind, e.info)
            except Unmodelled as e:
                fn = st.frames[-1].body.path if st.frames else '?'
                self.incomplete.append(('unmodelled', str(e), fn))
                self.event(st, 'incomplete', what=f'unmodelled construct: {e}', fn=fn)
                return ('end', 'unmodelled', str(e))
            if sub is not None:
                # a callee produced several outcomes: continue each of them
                return self.reduce(self.graft(sub, depth, stop))

    def join_point(self, st):
        if not st.frames:
            return None
        idx = len(st.frames) - 1
        fr = st.frames[-1]
        blk = fr.body.blocks[fr.block]
        if st.pending is not None:
            t = blk['term']
            if t['k'] == 'call' and t['target'] is not None:
                return (fr.fid, t['target'], 0, idx)
            return (fr.fid, -1, 0, idx)
        if fr.stmt < len(blk['stmts']):
            return (fr.fid, fr.block, fr.stmt + 1, idx)
        t = blk['term']
        if t['k'] == 'switch':
            j = fr.body.ipdom(fr.block)
            if j is not None:
                return (fr.fid, j, 0, idx)
            return (fr.fid, -1, 0, idx)
        if t['k'] in ('call', 'drop', 'assert') and t.get('target') is not None:
            return (fr.fid, t['target'], 0, idx)
        return (fr.fid, -1, 0, idx)

    def graft(self, tree, depth, stop=None):
        if tree[0] == 'leaf':
            return self.run_until(tree[1], depth, stop)
        if tree[0] == 'end':
            return tree
        return ('fork', tree[1], {v: self.graft(t, depth, stop) for v, t in tree[2].items()})

    # -- merging of pure outcomes
    def reduce(self, tree):
        if tree[0] != 'fork':
            return tree
        cond, children = tree[1], tree[2]
        live = {v: t for v, t in children.items() if t[0] != 'end'}
        if len(live) < len(children):
            self.dropped += 1
        if not live:
            kinds = {t[1] for t in children.values()}
            return ('end', 'panic' if kinds == {'panic'} else sorted(kinds)[0], None)
        if not all(t[0] == 'leaf' for t in live.values()):
            return ('fork', cond, live) if len(live) < len(children) else tree
        vals = list(live.items())
        if len(vals) == 1:
            # the other branches ended (panic/infeasible/pruned): keep the
            # assumption on the surviving state
            return vals[0][1]
        m = self.merge_states(cond, vals)
        if m is None:
            return ('fork', cond, live)
        return ('leaf', m)

    def merge_states(self, cond, vals):
        states = [t[1] for _, t in vals]
        s0 = states[0]
        for s in states[1:]:
            if len(s.frames) != len(s0.frames) or (s.pending is None) != (s0.pending is None):
                return self._nomerge(1)
            for f, g in zip(s.frames, s0.frames):
                if f.fid != g.fid or f.block != g.block or f.stmt != g.stmt or f.body is not g.body:
                    return self._nomerge(2)
        if s0.pending is not None:
            return self._nomerge(3)
        if any(s.trace != s0.trace for s in states[1:]):
            return self._nomerge(4)
        allkeys = set()
        for s in states:
            allkeys |= s.mem.keys()
        UN = ('uninit', 'merge')
        dead = set()
        if s0.frames and s0.frames[-1].stmt == 0:
            top = s0.frames[-1]
            live_in, addr = top.body.liveness()
            live = live_in.get(top.block)
            if live is not None:
                for r in allkeys:
                    if r[0] == 'L' and r[1] == top.fid and r[2] not in live and r[2] not in addr:
                        dead.add(r)
        allkeys -= dead
        # temporaries no longer reachable from any local / static root are garbage
        if any(r[0] == 'T' for r in allkeys) and not any(f.cont is not None for s in states for f in s.frames):
            livet = set()
            for s in states:
                livet |= self.reachable_temps(s, dead)
            gone = {r for r in allkeys if r[0] == 'T' and r not in livet}
            dead |= gone
            allkeys -= gone
        diff = []
        for r in allkeys:
            v0 = s0.mem.get(r, UN)
            for s in states[1:]:
                v = s.mem.get(r, UN)
                if v is not v0 and v != v0:
                    diff.append(r)
                    break
        # differing roots must hold pure data
        for r in diff:
            for s in states:
                if not pure_data(s.mem.get(r, UN)):
                    return self._nomerge((5, r, [x.mem.get(r, UN) for x in states]))
        rets = [s.ret for s in states]
        if any(r is not None and not pure_data(r) for r in rets):
            if any(r != rets[0] for r in rets):
                return self._nomerge(6)
        m = s0.clone()
        for r in dead:
            m.mem.pop(r, None)
        # branch-specific values are first simplified under their own branch's
        # assumptions (which are dropped from the joined state)
        common = {}
        for k, v in s0.asm.items():
            if all(k in s.asm and s.asm[k] == v for s in states[1:]):
                common[k] = v
        common.pop(cond, None)
        own = []
        for _, t in vals:
            own.append({k: v for k, v in t[1].asm.items() if k not in common})
        memos = [{} for _ in vals]
        for r in diff:
            m.mem[r] = intern(self.merge_values(cond, [(v, specialise(t[1].mem.get(r, UN), own[i], memos[i]))
                                                       for i, (v, t) in enumerate(vals)]))
        m.ret = intern(self.merge_values(cond, [(v, specialise(t[1].ret, own[i], memos[i])) for i, (v, t) in enumerate(vals)]))
        # loop bookkeeping: keep the union of what the joined paths have seen
        for i, f in enumerate(m.frames):
            for s in states[1:]:
                for h, seen in s.frames[i].loops.items():
                    if h not in f.loops:
                        f.loops[h] = list(seen)
        m.asm = common
        m.nfid = max(s.nfid for s in states)
        m.ntmp = max(s.ntmp for s in states)
        return m

    def reachable_temps(self, st, dead=()):
        """'T' roots reachable through references from the other roots, the return value and the pending call"""
        out = set()
        seen_ids = set()
        stack = [v for k, v in st.mem.items() if k[0] != 'T' and k not in dead]
        stack.append(st.ret)
        if st.pending is not None:
            stack.append(st.pending[1])
        while stack:
            x = stack.pop()
            if not isinstance(x, tuple) or id(x) in seen_ids:
                continue
            seen_ids.add(id(x))
            if x and x[0] == 'T' and len(x) == 2 and isinstance(x[1], int):
                if x not in out:
                    out.add(x)
                    if x in st.mem:
                        stack.append(st.mem[x])
                continue
            stack.extend(x)
        return out

    def _nomerge(self, why):
        if os.environ.get('IPT_DEBUG_MERGE'):
            print('no merge: reason', str(why)[:1500], file=sys.stderr)
        return None

    def merge_values(self, cond, pairs):
        vs = [v for _, v in pairs]
        if all(v == vs[0] for v in vs[1:]):
            return vs[0]
        keys = [k for k, _ in pairs]
        if len(pairs) == 2 and all(isinstance(k, bool) for k in keys) and set(keys) == {True, False}:
            d = dict(pairs)
            return self.merge2(cond, d[True], d[False])
        # n-ary: chain of ite on (cond == k)
        out = vs[-1]
        for k, v in reversed(pairs[:-1]):
            c = ('bin', 'Eq', cond, C('isize', k)) if k != 'other' else None
            if c is None:
                return ('sel', cond, tuple(pairs))
            out = self.merge2(c, v, out)
        return out

    def merge2(self, c, a, b):
        if a == b:
            return a
        if isinstance(a, tuple) and isinstance(b, tuple) and a and b and a[0] == b[0]:
            if a[0] == 'tuple' and len(a[1]) == len(b[1]):
                return ('tuple', tuple(self.merge2(c, x, y) for x, y in zip(a[1], b[1])))
            if a[0] == 'enum' and a[1:4] == b[1:4] and len(a[4]) == len(b[4]):
                return ('enum', a[1], a[2], a[3], tuple(self.merge2(c, x, y) for x, y in zip(a[4], b[4])))
            if a[0] == 'map' and a[1] == b[1] and [k for k, _ in a[2]] == [k for k, _ in b[2]]:
                return ('map', a[1], tuple((k, self.merge2(c, x, y)) for (k, x), (_, y) in zip(a[2], b[2])))
        return ite(c, a, b)

    # ----------------------------------------------------------------- step
    def loops_of(self, body):
        k = body.path
        if k not in self._loops_cache:
            loops = body.natural_loops()
            info = {}
            for h, blocks in loops.items():
                assigned = set()
                for bi in blocks:
                    blk = body.blocks[bi]
                    for s in blk['stmts']:
                        if s['k'] == 'assign':
                            assigned.add(s['place']['l'])
                            rv = s['rv']
                            # `x += d` on a non-primitive is add_assign(&mut x, d): the borrowed local varies too
                            if rv.get('k') == 'ref' and rv.get('mut') and not any(
                                    e == 'deref' for e in rv['place'].get('p', [])):
                                assigned.add(rv['place']['l'])
                    t = blk['term']
                    if t['k'] == 'call':
                        assigned.add(t['dest']['l'])
                info[h] = (blocks, assigned)
            self._loops_cache[k] = info
        return self._loops_cache[k]

    def enclosing_loop(self, fr):
        info = self.loops_of(fr.body)
        best = None
        for h, (blocks, _) in info.items():
            if fr.block in blocks:
                if best is None or len(blocks) < len(info[best][0]):
                    best = h
        return (fr.body.path, best) if best is not None else None

    def at_loop_header(self, st, fr):
        """Loops are first iterated concretely (iterations that take no
        data-dependent decision); as soon as an iteration forked on a free
        condition, the loop-variant scalars are abstracted to `loopval` terms
        and re-arrival with an equal abstract state is pruned."""
        info = self.loops_of(fr.body)
        if fr.block not in info:
            return
        blocks, assigned = info[fr.block]
        lid = (fr.body.path, fr.block)
        # a new iteration of this loop enters its inner loops afresh
        for h2 in [h for h in fr.loops if h != fr.block and h in blocks]:
            del fr.loops[h2]
        scal = [l for l in sorted(assigned) if self.loop_abstractable(fr.body.locals[l])]
        if fr.block not in fr.loops:
            inits = {l: st.mem[('L', fr.fid, l)] for l in scal if ('L', fr.fid, l) in st.mem}
            fr.loops[fr.block] = [(self.signature(st), inits, frozenset(st.asm), False)]
            return
        seen = fr.loops[fr.block]
        inits = seen[0][1]
        symbolic = self.loop_abstract and (seen[-1][3] or bool(set(st.asm) - seen[-1][2]) or len(seen) > 24)
        if symbolic:
            for l in scal:
                root = ('L', fr.fid, l)
                if root in st.mem:
                    cur = st.mem[root]
                    if isinstance(cur, tuple) and cur and cur[0] in ('vec', 'vecsum', 'map', 'iter', 'refcell', 'ref', 'refguard',
                                                                     'closure', 'uninit'):
                        continue
                    if not pure_data(cur):
                        continue
                    if cur != inits.get(l, cur) or (isinstance(cur, tuple) and cur and cur[0] == 'loopval'):
                        h = self.hooks.get('loop_back')
                        if h:
                            # value carried into the next iteration (a term over this iteration's loopval)
                            h(self, st, fr, lid, l, inits.get(l), cur)
                        st.mem[root] = ('loopval', (lid, l), inits.get(l))
            if len(seen) > 24:
                # a long concrete walk over a known sequence: forget the position, the rest of the walk is generic
                for root, cur in list(st.mem.items()):
                    if root[0] == 'L' and root[1] == fr.fid and isinstance(cur, tuple) and cur and cur[0] == 'iter' and \
                            cur[1] in ('seq', 'val', 'map', 'zip', 'successors') and root[2] in assigned | self.iter_locals(fr.body, blocks):
                        st.mem[root] = ('iter', 'abstract', self.purify(st, cur))
            # conditions on loop-variant terms do not carry over to the next iteration
            for c in [c for c in st.asm if mentions_loop(c, lid)]:
                del st.asm[c]
        sig = self.signature(st)
        for rec in seen:
            if rec[0] == sig:
                raise PathEnd('loop-subsumed')
        if len(seen) >= self.loop_bound:
            if os.environ.get('IPT_DEBUG_LOOP'):
                a, b = dict(seen[-1][0]), dict(sig)
                for k in sorted(set(a) | set(b)):
                    if a.get(k) != b.get(k):
                        print('loop-bound diff', fr.body.path, fr.block, k, str(a.get(k))[:300], '=>', str(b.get(k))[:300], file=sys.stderr)
            self.incomplete.append(('loop-bound', fr.body.path, fr.block))
            self.event(st, 'incomplete', what='loop bound reached', fn=fr.body.path)
            raise PathEnd('loop-bound')
        seen.append((sig, inits, frozenset(st.asm), symbolic))

    def iter_locals(self, body, blocks):
        """locals mutably borrowed inside the loop (the iterator advanced by `next(&mut it)`)"""
        key = ('iterlocals', body.path, min(blocks))
        if key not in self._loops_cache:
            out = set()
            for bi in blocks:
                for s_ in body.blocks[bi]['stmts']:
                    if s_['k'] == 'assign' and s_['rv'].get('k') == 'ref' and s_['rv'].get('mut'):
                        out.add(s_['rv']['place']['l'])
            self._loops_cache[key] = out
        return self._loops_cache[key]

    def loop_abstractable(self, ty):
        """locals whose loop-carried value may be abstracted to a `loopval` term: scalars and plain-data ADTs
        (not collections, references, iterators, closures)"""
        if ty.get('prim'):
            return ty['s'] in SCALARS
        adt = ty.get('adt')
        if adt:
            if adt.startswith(('std::vec::', 'std::collections::', 'std::string::', 'std::iter::', 'std::slice::', 'std::ops::Range',
                               'std::option::', 'std::result::', 'std::cell::', 'std::sync::', 'std::thread::', 'std::boxed::')):
                return False
            return True
        return False

    def signature(self, st):
        """abstract state at a loop header: memory reachable from the live
        locals of the frames (dead temporaries do not distinguish states)"""
        roots = []
        top = st.frames[-1]
        live_in, addr = top.body.liveness()
        live = live_in.get(top.block, set()) | addr
        for k in st.mem:
            if k[0] == 'L':
                if k[1] == top.fid and k[2] not in live:
                    continue
                roots.append(k)
        seen_roots = set()
        seen_ids = set()
        work = list(roots)
        while work:
            r = work.pop()
            if r in seen_roots:
                continue
            seen_roots.add(r)
            v = st.mem.get(r)
            if v is None:
                continue
            stack = [v]
            while stack:
                x = stack.pop()
                if not isinstance(x, tuple) or id(x) in seen_ids:
                    continue
                seen_ids.add(id(x))
                if x and x[0] in ('ref', 'refguard') and len(x) >= 3 and isinstance(x[1], tuple):
                    if x[1] and x[1][0] in ('L', 'T') and x[1] not in seen_roots:
                        work.append(x[1])
                    continue
                stack.extend(x)
        return tuple(sorted(((repr(k), st.mem[k]) for k in seen_roots if k in st.mem), key=lambda x: x[0]))

    def reachable_snapshot(self, st, vals):
        """(root, value) pairs reachable through pointers from `vals`"""
        out = {}
        seen_ids = set()
        stack = list(vals)
        while stack:
            x = stack.pop()
            if not isinstance(x, tuple) or id(x) in seen_ids:
                continue
            seen_ids.add(id(x))
            if x and x[0] in ('ref', 'refguard') and len(x) >= 3 and isinstance(x[1], tuple):
                r = x[1]
                if r and r[0] in ('L', 'T') and r not in out and r in st.mem:
                    out[r] = st.mem[r]
                    stack.append(st.mem[r])
                continue
            stack.extend(x)
        return out

    def step(self, st):
        self.steps += 1
        if self.steps > self.step_limit:
            raise RuntimeError('step limit exceeded')
        if st.pending is not None:
            cont, rv = st.pending
            # continuations decide (and may fork) before they mutate the state
            self.resume(st, cont, rv)
            return None
        st.ret = None
        fr = st.frames[-1]
        blk = fr.body.blocks[fr.block]
        if fr.stmt == 0:
            self.at_loop_header(st, fr)
        stmts = blk['stmts']
        if fr.stmt < len(stmts):
            s = stmts[fr.stmt]
            if s['k'] == 'assign':
                v = self.eval_rvalue(st, fr, s['rv'])
                root, path = self.eval_place(st, fr, s['place'])
                h = self.hooks.get('assign')
                if h:
                    h(self, st, fr, s, root, path, v)
                self.store(st, root, path, v)
            elif s['k'] == 'setdiscr':
                raise Unmodelled('SetDiscriminant')
            fr.stmt += 1
            return None
        t = blk['term']
        k = t['k']
        if k == 'goto':
            self.jump(fr, t['target'])
        elif k == 'switch':
            v = self.force(st, self.eval_operand(st, fr, t['discr']))
            listed = [x for x, _ in t['targets']]
            if is_const(v):
                d = cval(v)
                if isinstance(d, bool):
                    d = 1 if d else 0
            elif v[0] == 'enum' and not v[4]:
                d = cval(self.discr_of(st, v, None))
            else:
                ty = t['discr'].get('place', {}).get('ty') if t['discr']['k'] != 'const' else None
                if ty == 'bool' or is_boolish(v):
                    d = 1 if self.decide(st, v) else 0
                else:
                    d = self.decide_int(st, v, listed)
            tgt = t['otherwise']
            for x, b in t['targets']:
                if x == d:
                    tgt = b
            self.jump(fr, tgt)
        elif k == 'return':
            self.do_return(st)
        elif k == 'drop':
            root, path = self.eval_place(st, fr, t['place'])
            try:
                v = self.load(st, root, path)
            except (PathEnd, KeyError):
                v = None
            self.drop_value(st, v)
            self.jump(fr, t['target'])
        elif k == 'assert':
            self.visited[(fr.body.path, fr.block)] = self.visited.get((fr.body.path, fr.block), 0) + 1
            c = self.force(st, self.eval_operand(st, fr, t['cond']))
            if is_const(c):
                if bool(cval(c)) != t['expected']:
                    raise PathEnd('panic', ('assert', t['msg'], t.get('span')))
            else:
                self.event(st, 'assert-maybe', cond=c, expected=t['expected'], msg=t['msg'], span=t.get('span'),
                           fn=fr.body.path)
                cc = c
                exp = t['expected']
                if cc[0] == 'un' and cc[1] == 'Not':
                    cc, exp = cc[2], not exp
                if cc in st.asm and st.asm[cc] != exp:
                    raise PathEnd('panic', ('assert', t['msg'], t.get('span')))
            self.jump(fr, t['target'])
        elif k == 'call':
            return self.do_call(st, fr, t)
        elif k == 'unreachable':
            raise PathEnd('infeasible', 'unreachable')
        elif k == 'resume':
            raise PathEnd('unwind')
        else:
            raise Unmodelled(f'terminator {k}: {t.get("s", "")[:60]}')
        return None

    def jump(self, fr, b):
        fr.block = b
        fr.stmt = 0

    def do_return(self, st):
        fr = st.frames.pop()
        rv = st.mem.get(('L', fr.fid, 0), UNIT)
        if not isinstance(fr.fid, tuple):
            for r in [r for r in st.mem if r[0] == 'L' and r[1] == fr.fid]:
                del st.mem[r]
        rv = intern(rv)
        st.ret = rv
        if fr.cont is not None:
            st.pending = (fr.cont, rv)
            return
        if st.frames:
            caller = st.frames[-1]
            if fr.target is None:
                raise PathEnd('diverge')
            if fr.dest is not None:
                self.store(st, fr.dest[0], fr.dest[1], rv)
            self.jump(caller, fr.target)

    def drop_value(self, st, v):
        if isinstance(v, tuple) and v and v[0] == 'refguard':
            self.release(st, v)
        if isinstance(v, tuple) and v and v[0] == 'sender':
            self.event(st, 'sender-drop', sender=v)

    def release(self, st, g):
        try:
            cell = self.load(st, g[1], g[2])
        except (PathEnd, KeyError, Unmodelled):
            return
        if isinstance(cell, tuple) and cell[0] == 'refcell':
            bs = cell[2]
            nbs = 0 if g[3] else max(0, bs - 1)
            self.store(st, g[1], g[2], ('refcell', cell[1], nbs))

    # ---------------------------------------------------------------- calls
    def push_call(self, st, body, args, dest, target, cont=None, site=None):
        if len(st.frames) > self.max_depth:
            raise Unmodelled('call depth')
        fid = st.nfid
        st.nfid += 1
        fr = Frame(fid, body, dest, target, cont, site)
        st.frames.append(fr)
        for i, a in enumerate(args):
            st.mem[('L', fid, i + 1)] = intern(a)
        return fr

    def temp(self, st, v):
        r = ('T', st.ntmp)
        st.ntmp += 1
        st.mem[r] = intern(v)
        return r

    def call_callable(self, st, f, args, cont):
        """call closure value / fn item `f` with argument list; on return the
        continuation `cont` is resumed with the result."""
        f = self.force(st, f)
        if f[0] == 'fn':
            body = self.facts.bodies.get(f[1])
            if body is None:
                rv = None
                m = MODELS.get(f[1]) or model_by_pattern(f[1], {'callee': {}})
                if m is not None:
                    fake = {'callee': {'decl': f[1], 'resolved': f[1], 'gargs': []}, 'span': None, 'args': [], 'target': None}
                    depth0 = len(st.frames)
                    pend0 = st.pending
                    try:
                        r = m(self, st, st.frames[-1], fake, list(args), None, None)
                    except (TypeError, AttributeError, KeyError, IndexError):
                        r = DEFER
                    if r is not DEFER and len(st.frames) == depth0 and st.pending is pend0:
                        rv = r
                if rv is None:
                    rv = self.opaque_app(st, f[1], args)
                st.ret = rv
                self.resume(st, cont, rv)
                return
            self.push_call(st, body, list(args), None, None, cont)
            return
        if f[0] == 'closure':
            body = self.facts.bodies.get(f[1])
            if body is None:
                raise Unmodelled('closure body missing')
            envty = body.locals[1]
            if 'ref' in envty:
                env = mk_ref(self.temp(st, f), ())
            else:
                env = f
            self.push_call(st, body, [env] + list(args), None, None, cont)
            return
        if f[0] == 'ref':
            return self.call_callable(st, self.load(st, f[1], f[2]), args, cont)
        raise Unmodelled(f'call of {f[0]}')

    def deref_arg(self, st, v):
        """pointee snapshot of a reference-valued argument (for app terms)"""
        v = self.force(st, v)
        seen = 0
        while isinstance(v, tuple) and v and v[0] == 'ref' and seen < 4:
            try:
                v = self.force(st, self.load(st, v[1], v[2]))
            except KeyError:
                break
            seen += 1
        return v

    def purify(self, st, v, depth=0, memo=None):
        """value snapshot: pointers (other than symbolic ones) are replaced by
        what they point at, so that uninterpreted terms do not alias memory"""
        if memo is None:
            memo = {}
        if not isinstance(v, tuple) or not v:
            return v
        k = id(v)
        if k in memo:
            return memo[k]
        if v[0] == 'ref' and len(v) == 3 and isinstance(v[1], tuple):
            if v[1][0] == 'S' and depth <= 6:
                try:
                    r = self.purify(st, self.load(st, v[1], v[2]), depth + 1, memo)
                except (KeyError, PathEnd, Unmodelled, Fork):
                    r = v
            elif v[1][0] == 'P' or depth > 6:
                r = v
            else:
                try:
                    r = self.purify(st, self.load(st, v[1], v[2]), depth + 1, memo)
                except (KeyError, PathEnd, Unmodelled, Fork):
                    r = ('unkref',)
        elif v[0] == 'refguard':
            try:
                r = self.purify(st, self.load(st, v[1], v[2] + (('cell',),)), depth + 1, memo)
            except (KeyError, PathEnd, Unmodelled, Fork):
                r = ('unkref',)
        elif v[0] == 'refcell':
            r = self.purify(st, v[1], depth, memo)
        elif v[0] == 'c':
            r = v
        else:
            ch = False
            out = []
            for x in v:
                y = self.purify(st, x, depth, memo) if isinstance(x, tuple) else x
                if y is not x:
                    ch = True
                out.append(y)
            r = tuple(out) if ch else v
        memo[k] = r
        return r

    def opaque_app(self, st, name, args, havoc=True):
        vals = tuple(self.purify(st, self.force(st, a)) for a in args)
        return ('app', name, vals)

    def do_call(self, st, fr, t):
        name = callee_name(t)
        args = [self.eval_operand(st, fr, a) for a in t['args']]
        if 'indirect' in t['callee']:
            # call through a function pointer / fn item held in a local
            fv = self.force(st, self.eval_operand(st, fr, t['callee']['indirect']))
            if isinstance(fv, tuple) and fv and fv[0] == 'ref':
                fv = self.force(st, self.load(st, fv[1], fv[2]))
            if isinstance(fv, tuple) and fv and fv[0] == 'fn':
                name = fv[1]
            elif isinstance(fv, tuple) and fv and fv[0] == 'closure':
                dest = self.eval_place(st, fr, t['dest'])
                self.visited[(fr.body.path, fr.block)] = self.visited.get((fr.body.path, fr.block), 0) + 1
                self.call_callable(st, fv, args, ('wrap', dest, t['target'], lambda x: x))
                return None
        dest = self.eval_place(st, fr, t['dest'])
        target = t['target']
        site = (fr.body.path, fr.block, t.get('span'))
        self.visited[(fr.body.path, fr.block)] = self.visited.get((fr.body.path, fr.block), 0) + 1
        if name in self.interest or callee_decl(t) in self.interest:
            self.event(st, 'call', callee=name, args=tuple(args), site=site)
        h = self.hooks.get('call')
        if h:
            r = h(self, st, fr, t, name, args)
            if r is not None:
                self.finish_call(st, fr, dest, target, r)
                return None
        # 1. std models
        m = MODELS.get(name) or MODELS.get(callee_decl(t))
        if m is None:
            m = model_by_pattern(name, t)
        if m is not None:
            r = m(self, st, fr, t, args, dest, target)
            if r is DEFER:
                return None
            self.finish_call(st, fr, dest, target, r)
            return None
        # 2. local bodies (inlined)
        body = self.facts.bodies.get(name)
        self_ty = None
        if body is None and fr.self_ty and 'indirect' not in t['callee']:
            # trait method called on `Self` inside a default method: resolve through the impl of the caller's Self
            ga = t['callee'].get('gargs') or []
            if ga and ga[0] == 'Self':
                tr = t['callee'].get('trait')
                cand = self.impl_method(fr.self_ty, tr, name.split('::')[-1])
                if cand:
                    name = cand
                    body = self.facts.bodies.get(name)
        if body is not None and body.impl_of and 'trait_default' in body.impl_of:
            ga = t['callee'].get('gargs') or []
            if ga:
                self_ty = fr.self_ty if ga[0] == 'Self' else ga[0]
        if body is not None and body.kind == 'Closure' and (callee_decl(t) or '').startswith(('std::ops::Fn::call', 'std::ops::FnMut::call_mut',
                                                                                             'std::ops::FnOnce::call_once')) and len(args) == 2:
            # "rust-call" ABI: the arguments arrive as one tuple
            tup = self.force(st, args[1])
            if isinstance(tup, tuple) and tup and tup[0] == 'tuple':
                args = [args[0]] + list(tup[1])
            env_is_ref = 'ref' in body.locals[1]
            a0 = self.force(st, args[0])
            if env_is_ref and not (isinstance(a0, tuple) and a0 and a0[0] == 'ref'):
                args[0] = mk_ref(self.temp(st, a0), ())
            elif not env_is_ref and isinstance(a0, tuple) and a0 and a0[0] == 'ref':
                args[0] = self.load(st, a0[1], a0[2])
        cparams = None
        ca = (t.get('callee') or {}).get('cargs') or []
        if ca:
            d_ = {}
            for nm, v in ca:
                if isinstance(v, dict) and 'cparam' in v:
                    v = (fr.cparams or {}).get(v['cparam'])
                if isinstance(v, int):
                    d_[nm] = v
            cparams = d_ or None
        recursive = body is not None and any(f_.body.path == name for f_ in st.frames)
        if recursive:
            # a function called while it is already running: not inlined again (the analysis would not end); the call stays
            # an uninterpreted application and is recorded with the conditions it is made under (C07 decides termination)
            self.recursive_calls.append((name, tuple(self.purify(st, a) for a in args), dict(st.asm), fr.body.path))
        if body is not None and name not in self.opaque and not self.is_opaque(name) and not recursive:
            depth = len(st.frames)
            if self.use_cache:
                snap = self.reachable_snapshot(st, args)
                key = (name, self_ty, tuple(sorted(cparams.items())) if cparams else None, tuple(args), tuple(sorted(((repr(k), v) for k, v in snap.items()), key=lambda x: x[0])))
                hit = self.call_cache.get(key, MISSING)
                if hit is MISSING:
                    st2 = st.clone()
                    st2.asm = {}
                    nlog = len(self.log)
                    ndrop = self.dropped
                    nf2 = self.push_call(st2, body, args, dest, target, None, site)
                    nf2.self_ty = self_ty
                    nf2.cparams = cparams
                    tr = self.run_until(st2, depth)
                    hit = None
                    if tr[0] == 'leaf' and not tr[1].asm and tr[1].pending is None and self.dropped == ndrop:
                        ls = tr[1]
                        same = all(ls.mem.get(k) == v for k, v in snap.items())
                        if same and pure_data(ls.ret, snap):
                            hit = (ls.ret,)
                        elif self.debug_cache:
                            print('  impure:', name, same, str(ls.ret)[:200])
                    if hit is None:
                        del self.log[nlog:]
                        if self.debug_cache:
                            print('NOCACHE', name, tr[0], (tr[1].asm if tr[0] == 'leaf' else ''))
                    else:
                        for e in self.log[nlog:]:
                            a = dict(st.asm)
                            a.update(e['asm'])
                            e['asm'] = a
                    self.call_cache[key] = hit
                if hit is not None:
                    self.cache_hits += 1
                    self.finish_call(st, fr, dest, target, hit[0])
                    return None
            nf = self.push_call(st, body, args, dest, target, None, site)
            nf.self_ty = self_ty
            nf.cparams = cparams
            tree = self.run_until(st, depth)
            if tree[0] == 'leaf':
                # state object may differ from `st` after merging: copy back
                self.adopt(st, tree[1])
                return None
            return tree
        # 3. uninterpreted
        self.unmodelled[name] = self.unmodelled.get(name, 0) + 1
        r = self.opaque_app(st, name, args)
        for a, ao in zip(args, t['args']):
            a = self.force(st, a)
            if isinstance(a, tuple) and a[0] == 'ref' and self.operand_is_mut_ref(fr, ao):
                if a[1][0] != 'S':
                    self.event(st, 'havoc', callee=name, root=a[1])
                    self.store(st, a[1], a[2], ('unk', name, tuple(self.deref_arg(st, x) for x in args)))
        if target is None:
            self.event(st, 'panic', info=('diverging-call', name), span=t.get('span'))
            raise PathEnd('diverge', name)
        self.finish_call(st, fr, dest, target, r)
        return None

    def impl_method(self, self_ty, trait, method):
        for p, b in self.facts.bodies.items():
            io = b.impl_of
            if io and io.get('self_ty') == self_ty and io.get('trait') and trait and \
                    io['trait'].split('<')[0] == trait.split('<')[0] and p.split('::')[-1] == method:
                return p
        return None

    def is_opaque(self, name):
        f = self.hooks.get('opaque')
        return bool(f and f(name))

    def operand_is_mut_ref(self, fr, o):
        if o['k'] == 'const':
            return False
        ty = o['place'].get('ty', '')
        return ty.startswith('&mut ')

    def adopt(self, st, other):
        if other is st:
            return
        st.mem = other.mem
        st.frames = other.frames
        st.asm = other.asm
        st.nfid = other.nfid
        st.ntmp = other.ntmp
        st.ret = other.ret
        st.trace = other.trace
        st.pending = other.pending

    def finish_call(self, st, fr, dest, target, r):
        if target is None:
            raise PathEnd('diverge')
        self.store(st, dest[0], dest[1], r)
        self.jump(fr, target)

    # -------------------------------------------------------- continuations
    def resume(self, st, cont, rv):
        kind = cont[0]
        fr = st.frames[-1]
        if kind in ('wrap', 'seq'):
            rv = self.force(st, rv) if kind == 'seq' else rv
        st.pending = None
        if kind == 'wrap':
            # ('wrap', dest, target, fn)
            _, dest, target, fn = cont
            self.finish_call(st, fr, dest, target, fn(rv))
            return
        if kind == 'seq':
            # ('seq', dest, target, pyfunc(st, rv) -> None)   generic python continuation
            _, dest, target, fn = cont
            fn(st, fr, dest, target, rv)
            return
        raise Unmodelled(f'continuation {kind}')


SCALARS = {'f64', 'f32', 'i8', 'i16', 'i32', 'i64', 'i128', 'isize', 'u8', 'u16', 'u32', 'u64', 'u128', 'usize',
           'bool', 'char'}


def is_boolish(v):
    if not isinstance(v, tuple) or not v:
        return False
    if v[0] == 'bin' and v[1] in ('Lt', 'Le', 'Gt', 'Ge', 'Eq', 'Ne'):
        return True
    if v[0] == 'un' and v[1] == 'Not':
        return True
    if v[0] == 'ovf':
        return True
    if v[0] == 'app' and v[1] in BOOL_APPS:
        return True
    if v[0] in ('iterhas',):
        return True
    if v[0] == 'bin' and v[1] in ('BitAnd', 'BitOr', 'BitXor'):
        return is_boolish(v[2]) or is_boolish(v[3])
    return False


BOOL_APPS = {'contains', 'is_nan', 'is_finite', 'is_empty'}


def mentions_loop(t, lid):
    st = [t]
    n = 0
    while st and n < 5000:
        x = st.pop()
        n += 1
        if isinstance(x, tuple):
            if x and x[0] == 'loopval' and x[1][0] == lid:
                return True
            if x and x[0] in ('iterhas', 'iterval') and x[1] == lid:
                return True
            st.extend(x)
    return False


def cond_value(c, asm):
    """truth value of condition term c under assumptions, or None"""
    if c in asm:
        return bool(asm[c]) if not (isinstance(c, tuple) and c and c[0] == 'discr') else None
    if isinstance(c, tuple) and c:
        if c[0] == 'un' and c[1] == 'Not':
            r = cond_value(c[2], asm)
            return None if r is None else not r
        if c[0] == 'bin' and c[1] in ('Eq', 'Ne') and is_const(c[3]) and c[2] in asm:
            r = asm[c[2]] == cval(c[3])
            return r if c[1] == 'Eq' else not r
    return None


def specialise(v, asm, memo=None):
    """resolve ite sub-terms whose condition is decided by `asm`"""
    if not asm or not isinstance(v, tuple) or not v:
        return v
    if memo is None:
        memo = {}
    k = id(v)
    if k in memo:
        return memo[k][1]
    if v[0] == 'c':
        return v
    if v[0] == 'ite':
        d = cond_value(v[1], asm)
        if d is True:
            r = specialise(v[2], asm, memo)
        elif d is False:
            r = specialise(v[3], asm, memo)
        else:
            c2 = specialise(v[1], asm, memo)
            a = specialise(v[2], asm, memo)
            b = specialise(v[3], asm, memo)
            r = v if (a is v[2] and b is v[3] and c2 is v[1]) else ite(c2, a, b)
    else:
        ch = False
        out = []
        for x in v:
            y = specialise(x, asm, memo) if isinstance(x, tuple) else x
            if y is not x:
                ch = True
            out.append(y)
        r = tuple(out) if ch else v
    memo[k] = (v, r)
    return r


def pure_data(v, stable_roots=()):
    """no pointers (other than into immutable / given stable roots), cells or
    guards inside"""
    st = [v]
    seen = set()
    while st:
        x = st.pop()
        if isinstance(x, tuple):
            if id(x) in seen:
                continue
            seen.add(id(x))
            if x and x[0] in ('ref', 'refcell', 'refguard'):
                if x[0] == 'ref' and (x[1][0] in ('S', 'P') or x[1] in stable_roots):
                    continue
                return False
            st.extend(x)
    return True


def leaves_of(tree):
    if tree[0] == 'leaf':
        yield tree[1]
    elif tree[0] == 'fork':
        for t in tree[2].values():
            yield from leaves_of(t)


def count_ends(tree, kinds=None):
    if tree[0] == 'end':
        return 1 if (kinds is None or tree[1] in kinds) else 0
    if tree[0] == 'fork':
        return sum(count_ends(t, kinds) for t in tree[2].values())
    return 0


DEFER = object()
MISSING = object()
MODELS = {}


def model(*names):
    def deco(f):
        for n in names:
            MODELS[n] = f
        return f
    return deco


import re as _re2
_F64_REF_OP = _re2.compile(r"^<&?(?:'[a-z_]+ )?f64 as std::ops::(Add|Sub|Mul|Div|Rem)<&?(?:'[a-z_]+ )?f64>>::(?:add|sub|mul|div|rem)$")


def model_by_pattern(name, t):
    from . import models as _m
    if name and _m._NUM_FROM.match(name):
        return _m._num_from
    mm = _F64_REF_OP.match(name or '')
    if mm:
        op = mm.group(1)

        def mref(eng, st, fr, t, args, dest, target, op=op):
            vals = []
            for a in args:
                a = eng.force(st, a) if isinstance(a, tuple) and a and a[0] == 'ref' else a
                n = 0
                while isinstance(a, tuple) and a and a[0] == 'ref' and n < 3:
                    a = eng.load(st, a[1], a[2])
                    n += 1
                vals.append(a)
            return eng.binop(st, op, vals[0], vals[1])
        return mref
    if name in F64_METHODS:
        short = F64_METHODS[name]

        def m(eng, st, fr, t, args, dest, target, short=short):
            return ('app', short, tuple(args))
        return m
    return None


from . import models  # noqa: E402,F401  (registers the std models)
