"""Obligation bookkeeping, evidence files, VIOLATION / KNOWN-FINDING lines."""
import hashlib
import json
import os
import re
import time

VERIF = os.path.dirname(os.path.dirname(os.path.abspath(__file__)))
EVID = os.environ.get('IPT_EVID') or os.path.join(VERIF, 'evidence')
KNOWN = os.path.join(VERIF, 'KNOWN_FINDINGS.txt')


def load_known():
    known = {}
    fixed = []
    if os.path.exists(KNOWN):
        for line in open(KNOWN):
            line = line.strip()
            if not line or line.startswith('#'):
                continue
            m = re.match(r'known:\s+property=(\S+)\s+key=(\S+)\s*(.*)', line)
            if m:
                known.setdefault(m.group(1), {})[m.group(2)] = m.group(3)
                continue
            if line.startswith('fixed:'):
                fixed.append(line)
    return known, fixed


class Report:
    def __init__(self, pid, tier, seed=0):
        self.pid = pid
        self.tier = tier
        self.seed = seed
        self.t0 = time.time()
        self.obls = []          # (rule, key, status, detail)
        self.samples = []
        self.floors = {}        # name -> (count, floor)
        self.extra = {}
        self.assumptions = []
        self.trusted = []
        self.explanation = ''
        self.violations = []    # (key, payload)
        self.notes = []

    # status: True = discharged, False = violated, None = undecided
    def ob(self, rule, key, status, detail='', where=None, **payload):
        if status is False and getattr(self, 'unreliable', None) and rule not in ('anchor',):
            # the analysis met library code it has no model for: what it concludes from there on is not a verdict
            status = None
            detail = f'[not decided: {self.unreliable}] ' + detail
        self.obls.append((rule, key, status, detail))
        if status is False:
            p = dict(rule=rule, instance=key, detail=detail, where=where)
            p.update(payload)
            self.violations.append((f'{rule}:{key}', p))
        return status

    def floor(self, name, count, floor):
        """Anchor / instance-count floor: falling below it is an alarm (a rule
        that matches nothing would pass vacuously forever)."""
        self.floors[name] = {'count': count, 'floor': floor}
        if count < floor:
            self.ob('floor', name, False, f'{count} instance(s) found, at least {floor} expected (anchor lost)')
        else:
            self.ob('floor', name, True, f'{count} >= {floor}')

    def sample(self, s):
        if len(self.samples) < 40:
            self.samples.append(s)

    def note(self, s):
        self.notes.append(s)

    # rules that read the program text (MIR call sites, aggregates, types) and not the interpreter's result: an unknown
    # library function elsewhere does not make them less certain
    STATIC_RULES = {'R18.1', 'R18.5', 'R20.2', 'R20.5', 'R7.8', 'R15.5', 'R17.12', 'R19.7', 'R18.4', 'R16.8', 'R19.8', 'R7.4', 'R18.7', 'R18.8', 'R18.9'}

    def downgrade_all(self, reason):
        """the analysis met library code it has no model for: what the interpreter concluded is not a verdict (never an alarm)"""
        self.obls = [(r, k, (None if (st is False and r not in self.STATIC_RULES) else st),
                      (f'[not decided: {reason}] ' + d if (st is False and r not in self.STATIC_RULES) else d)) for (r, k, st, d) in self.obls]
        self.violations = [(key, p) for (key, p) in self.violations if p.get('rule') in self.STATIC_RULES]
        self.floor_downgrade = reason

    def finish(self):
        os.makedirs(os.path.join(EVID, 'replay'), exist_ok=True)
        known, _fixed = load_known()
        known = known.get(self.pid, {})
        n_viol = 0
        lines = []
        seen = set()
        for key, payload in self.violations:
            if key in seen:
                continue
            seen.add(key)
            if key in known:
                lines.append(f'KNOWN-FINDING: property={self.pid} key={key} {known[key]}')
                continue
            n_viol += 1
            h = hashlib.sha256(key.encode()).hexdigest()[:12]
            rp = os.path.join(EVID, 'replay', f'{self.pid}-{h}.json')
            with open(rp, 'w') as f:
                json.dump(dict(property=self.pid, key=key, **payload), f, indent=1, default=str)
            lines.append(f'VIOLATION property={self.pid} replay={rp}')
            lines.append(f'  rule={payload["rule"]} instance={payload["instance"]} where={payload.get("where")}')
            lines.append(f'  {payload["detail"]}')
        total = len(self.obls)
        disch = sum(1 for o in self.obls if o[2] is True)
        undec = sum(1 for o in self.obls if o[2] is None)
        by_rule = {}
        for (rule, key, st, d) in self.obls:
            r = by_rule.setdefault(rule, {'obligations': 0, 'discharged': 0, 'undecided': 0, 'violated': 0})
            r['obligations'] += 1
            r['discharged' if st is True else 'undecided' if st is None else 'violated'] += 1
        cov = {
            'explanation': self.explanation,
            'obligations': total,
            'discharged': disch,
            'undecided': undec,
            'violated': total - disch - undec,
            'by_rule': by_rule,
            'undecided_list': [f'{r}:{k} {d}' for (r, k, s, d) in self.obls if s is None][:60],
            'floors': self.floors,
            'samples': self.samples or [f'{r}:{k} -> {d}' for (r, k, s, d) in self.obls[:10]],
            'checker_cmd': f'bin/check {self.pid} {self.tier}',
            'trusted_base': self.trusted,
            'notes': self.notes,
        }
        # what was analysed, instance by instance: distinct (rule, instance) pairs with their verdict and the rule's finding
        inst = {}
        for (rule, key, st, d) in self.obls:
            e = inst.setdefault((rule, key), {'rule': rule, 'instance': key, 'n': 0, 'status': 'discharged', 'finding': d[:200]})
            e['n'] += 1
            if st is None and e['status'] == 'discharged':
                e['status'], e['finding'] = 'undecided', d[:200]
            elif st is False:
                e['status'], e['finding'] = 'violated', d[:200]
        cov['distinct_instances'] = len(inst)
        cov['instances'] = list(inst.values())[:600]
        cov.update(self.extra)
        ev = {
            'property_id': self.pid,
            'tier': self.tier,
            'seed': self.seed,
            'level': 'other',
            'coverage': cov,
            'assumptions': self.assumptions,
            'wall_s': round(time.time() - self.t0, 3),
            'violations': n_viol,
        }
        with open(os.path.join(EVID, f'{self.pid}.json'), 'w') as f:
            json.dump(ev, f, indent=1, default=str)
        for l in lines:
            print(l)
        print(f'[{self.pid}/{self.tier}] obligations={total} discharged={disch} undecided={undec} '
              f'violations={n_viol} known={len(seen) - n_viol} wall={ev["wall_s"]}s')
        return 1 if n_viol else 0
