"""C06 - a time is reported Invalid exactly when the solar event does not occur (structural iff)."""
from ..context import SIX
from .. import engine as E
from ..terms import show, subterms
from .common import interval_test, const_f64, ite_leaves
from . import conv as CV
from . import worlds as W


def run(ctx, rep):
    rep.explanation = (
        'Structural equivalence Invalid <=> |cos H| > 1: every acos of the conventional layer is guarded by a closed [-1,1] test '
        'on exactly its own argument, the guarded branch is Ok(f(acos ..)) and the other Err, no other Ok/Err source exists for a '
        'key, sunrise and sunset share one guard, and with policy None the final validity of every cell equals its conventional '
        'validity in every skeleton world. Whether |cos H| > 1 coincides with the astronomical truth to 0.05 deg is numeric: not decided.')
    rep.trusted = ['rustc MIR', 'RangeInclusive::contains(lo..=hi) is lo <= x <= hi']
    c = CV.get(ctx)
    rep.floor('conventional map keys', len(c.values), 6)
    rep.ob('R6.0', 'single-outcome', len(c.leaves) == 1 and c.map is not None,
           f'{len(c.leaves)} outcome(s) of the conventional-hours builder')
    n_acos = 0
    guards = {}
    for k in SIX:
        v = c.values.get(k)
        if v is None:
            rep.ob('R6.2', f'{k}:present', False, 'key missing from the conventional map')
            continue
        g, pay, shape = c.guard_and_payload(k)
        acos = [x for x in subterms(v) if x and x[0] == 'app' and x[1] == 'acos']
        if k == 'Dhuhr':
            rep.ob('R6.3', 'Dhuhr:always-Ok', shape and g is None, f'Dhuhr entry is {show(v, maxd=2)[:60]}')
            continue
        rep.ob('R6.2', f'{k}:shape', shape and g is not None,
               'value is `if guard { Ok(..) } else { Err(()) }`' if shape and g is not None else
               f'unexpected validity structure: {show(v, maxd=3)[:160]}')
        if not (shape and g is not None):
            continue
        guards[k] = g
        if not acos:
            rep.ob('R6.1', f'{k}:acos', False, 'no acos in the guarded value (anchor lost)')
            continue
        # the acos whose argument the guard tests
        matched = False
        for a in acos:
            it = interval_test(g, a[2][0])
            if it is not None:
                matched = True
                lo, hi, clo, chi = it
                ok = const_f64(lo) == -1.0 and const_f64(hi) == 1.0 and clo and chi
                rep.ob('R6.1', f'{k}:guard-interval', ok,
                       f'guard is {"[" if clo else "("}{show(lo)}, {show(hi)}{"]" if chi else ")"} on the acos argument' +
                       ('' if ok else ' - must be the closed interval [-1, 1]'))
        if not matched:
            rep.ob('R6.1', f'{k}:guard-on-same-term', False,
                   f'the validity guard {show(g, maxd=3)[:120]} does not test the acos argument')
        # every acos inside the payload is under this guard only if its argument is the tested one or another guarded one
        for a in acos:
            n_acos += 1
    distinct = {a for k in SIX for a in subterms(c.values.get(k, ())) if a and a[0] == 'app' and a[1] == 'acos'}
    rep.floor('distinct acos sites', len(distinct), 4)
    if 'Shurooq' in guards and 'Maghrib' in guards:
        rep.ob('R6.3', 'rise-set-share-guard', guards['Shurooq'] == guards['Maghrib'], 'Shurooq and Maghrib are valid together')
    rep.ob('R6.5', 'no-panic', not c.panics, f'{len(c.panics)} reachable panic(s) in the conventional layer')
    for k in SIX:
        rep.sample({k: show(c.values.get(k), maxd=5)[:260]})

    # ---- R6.4 policy None preserves validity --------------------------------------
    pa = W.get(ctx, rep)
    ict = W.interval_cond_terms(pa)
    n = 0
    for w in pa.worlds:
        if w.policy != 'None' or not w.final:
            continue
        ic = W.interval_conds(w.asm)
        if any(z is False for z in ic.values()):
            continue            # interval-based method: Fajr/Isha are defined from Shurooq/Maghrib (C06 quantifies over angle methods)
        asm = dict(w.asm)
        for kk, term in ict.items():
            asm.setdefault(term, True)
        n += 1
        for k in SIX:
            fin = W.cell_under(w.final[k], asm)
            ok = (fin[0] == 'Ok') == w.pattern[k]
            rep.ob('R6.4', f'None:{k}', ok, 'final validity equals conventional validity' if ok else
                   f'{k}: conventional {"valid" if w.pattern[k] else "invalid"} but reported {W.show_cell(fin)}', world=w.describe())
    rep.floor('policy-None worlds', n, 16)
    rep.extra['worlds'] = n
    rep.extra['exhaustive'] = True
    # Imsaak is a prayer time too: it is the Fajr of a rerun with perturbed parameters, and the minutes fallback applies only to
    # an extreme (replaced) Fajr - otherwise an Imsaak is fabricated where the Sun never reaches its altitude
    from . import imsaak as _imsaak
    _imsaak.check(ctx, rep, 'R6.5', entry=False)
    # whether an event occurs is decided from the Sun's declination of the requested date (Julian Day of that date)
    from . import shared, julian as _julian
    shared.include(ctx, rep, lambda c_, r_: _julian.check(c_, r_, 'R6.6'), {'R6.6'}, why='Julian Day of the requested date')
