"""R20.6 - which day's event is reported when the GMT offset changes (clause 1 of C20 at the clock-midnight seam).

The rise/set day fraction is `cap1(m0 -/+ H0/360)` with m0 = (ra - longitude - sidereal time at the Julian Day)/360, and the Julian Day is that
of local midnight (R20.1: the GMT offset enters it as -gmt/24).  The normaliser of period one day therefore acts on a quantity that moves with
the GMT offset: a change of the offset that carries the event across clock midnight makes the wrap select the event of the neighbouring day,
whose clock time differs by that event's day-to-day change - up to about two minutes at |lat| 45 - where the property allows 10 s.
Decided here: that the wrap exists, has period one day, and sits on a term that contains the sidereal time of the request's Julian Day."""
from .. import domains as D
from ..terms import show, subterms
from .common import const_f64
from ..context import last_seg
from . import conv as CV
from . import solvers as S


def check(ctx, rep, sid_field):
    c = CV.get(ctx)
    norms = set(ctx.role('normalisers'))
    norms |= {last_seg(p) for p in norms}
    n = 0
    for k in ('Shurooq', 'Maghrib'):
        g, pay, shape = c.guard_and_payload(k)
        if pay is None:
            continue
        t = pay
        while t[0] == 'bin' and t[1] == 'Mul' and (const_f64(t[2]) is not None or const_f64(t[3]) is not None):
            t = t[3] if const_f64(t[2]) is not None else t[2]
        mterm = t[2] if t[0] == 'bin' and t[1] in ('Add', 'Sub') else None
        if mterm is None or not (mterm[0] == 'app' and (mterm[1] in norms or last_seg(mterm[1]) in norms)):
            rep.ob('R20.6', f'{k}:event-of-the-clock-day', None, 'day-fraction wrap not isolated')
            continue
        lo, hi = D.rng(mterm, S.env_for(pay))
        unit = (lo, hi) != D.TOP and lo >= -1e-9 and hi <= 1.0 + 1e-9
        moves = any(x and x[0] == 'field' and len(x) > 2 and x[2] == sid_field for a in mterm[2] for x in subterms(a))
        if not (unit and moves):
            rep.ob('R20.6', f'{k}:event-of-the-clock-day', None,
                   f'wrap {show(mterm, maxd=3)[:80]}: period-one image {unit}, argument contains the sidereal time of the Julian Day {moves}')
            continue
        n += 1
        rep.ob('R20.6', f'{k}:event-of-the-clock-day', False,
               f'the day fraction of {k} is wrapped into [0,1) ({show(mterm, maxd=2)[:60]}) after the sidereal time of local midnight - which moves '
               'with the GMT offset (R20.1) - has entered it: an offset change that carries the event across clock midnight selects the '
               'neighbouring day\'s event, so the time moves by d hours plus that event\'s day-to-day change (up to ~2 min at |lat| 45), not within 10 s')
    return n
