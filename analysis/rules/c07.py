"""C07 - computing prayer times never panics or hangs on valid input.

Inventory of every panic-capable site and every loop reachable from
prayer_times_dt, each discharged by abstract interpretation (typestate over all
skeleton worlds), key-presence tables, the NaiveTime construction guard, loop
classification, or a reviewed table entry.  A site that is neither is a
violation.
"""
import re
from ..context import SIX, PRAYERS, AnchorLost, last_seg
from ..facts import callee_name
from .. import engine as E
from .. import domains as D
from ..terms import show, subterms
from . import worlds as W

UNWRAP = re.compile(r'^std::(result::Result::<T, E>|option::Option::<T>)::(unwrap|expect|unwrap_err|expect_err|unwrap_unchecked)$')
MAP_INDEX = re.compile(r'^<std::collections::(HashMap|BTreeMap)<.*> as std::ops::Index<.*>>::index$')
SEQ_INDEX = re.compile(r'(std::vec::Vec::<T, A>::insert$)|(as std::ops::Index(Mut)?<I>>::index(_mut)?$)|(impl std::ops::Index<I> for \[T; N\]>::index$)|(slice::index::<impl std::ops::Index<I> for \[T\]>::index$)')
BORROW = re.compile(r'^std::cell::RefCell::<T>::(borrow|borrow_mut)$')
CHRONO_PANICKY = re.compile(r'^(<chrono::NaiveDate as std::ops::(Add|Sub)<chrono::(Days|TimeDelta|Months)>>::(add|sub)|chrono::TimeDelta::(days|weeks|hours|minutes|seconds|milliseconds)|chrono::NaiveDate::(from_ymd|from_yo|succ|pred)|chrono::NaiveTime::from_hms)$')
KNOWN_PANICKY = re.compile(r'(std::vec::Vec::<T, A>::(remove|swap_remove|split_off|drain)$)|(<impl \[T\]>::(split_at|split_at_mut|copy_from_slice|swap|chunks|chunks_exact|windows)$)|(::step_by$)|(<impl [iu](8|16|32|64|128|size)>::(pow|abs|div_euclid|rem_euclid|ilog2|ilog10|isqrt)$)|(std::sync::mpsc::.*::(send|recv)$)|(std::thread::)|(core::panicking::)|(std::rt::begin_panic)|(std::process::(exit|abort))|(::unwrap_failed$)|(::expect_failed$)|(std::time::)|(str::<impl str>::(split_at|split_at_mut)$)|(core::str::traits::<impl std::ops::Index(Mut)?<.*> for str>::index(_mut)?$)|(<impl std::ops::Index(Mut)?<.*> for str>::index(_mut)?$)|(slice::index::<impl std::ops::Index(Mut)?<.*> for \[T\]>::index(_mut)?$)|(std::string::String::(remove|insert|insert_str|split_off|drain|replace_range)$)|(alloc::string::String::(remove|insert|truncate|split_off)$)')
POINTER_ASSERT = ('MisalignedPointerDereference', 'NullPointerDereference')

# R7.8 reviewed sites: (function path regex, site class) -> reason.  Shape-constant indexing in the ephemeris
# kernel whose containers and index ranges are fixed by the code itself (independent of every input).
REVIEWED = [
    (r'^<chrono::NaiveDate as std::ops::(Add|Sub)<chrono::Days>>::(add|sub)$', r'JulianDay::(add|sub)$',
     'chrono date +/- Days(i) with i <= 366 days (search radius, R9.1) stays inside chrono\'s +/-262000-year range for every date in 1600..2399'),
]


def static_sites(ctx, reach):
    """(fn, block, cls, callee/msg) for every potential panic site in the bodies of `reach`"""
    out = []
    for p in sorted(reach):
        b = ctx.lib.bodies[p]
        if b.kind == 'Promoted' or b.kind.startswith('Const') or b.kind.startswith('Assoc') and b.kind != 'AssocFn':
            continue
        for bi in b.normal_blocks():
            t = b.blocks[bi]['term']
            if t['k'] == 'assert':
                kind = t['msg'].split(' ')[0].split('(')[0].split('{')[0]
                if kind in POINTER_ASSERT:
                    continue
                out.append((p, bi, 'assert:' + kind, t['msg'][:60]))
            elif t['k'] == 'call':
                n = callee_name(t) or 'indirect'
                cls = None
                if UNWRAP.match(n):
                    cls = 'unwrap'
                elif MAP_INDEX.match(n):
                    cls = 'map-index'
                elif SEQ_INDEX.search(n):
                    cls = 'seq-index'
                elif BORROW.match(n):
                    cls = 'borrow'
                elif CHRONO_PANICKY.match(n):
                    cls = 'chrono'
                elif KNOWN_PANICKY.search(n):
                    cls = 'panicky-api'
                elif t['target'] is None:
                    cls = 'diverging'
                if cls:
                    out.append((p, bi, cls, n))
            for s in b.blocks[bi]['stmts']:
                pass
    return out


def params_new_keys(ctx, rep):
    """{map field: {method: set(keys)}} as produced by Params::new on every match arm"""
    pn = ctx.pub_fn('new', 'Params')
    out = {}
    n = 0
    madt = ctx.lib.adts[ctx.adt('Method')]
    for var in madt['variants']:
        meth = int(var['discr'])
        eng = ctx.engine()
        tree = eng.call_entry(pn, [('param', 'method')], asm={('discr', ('param', 'method')): meth})
        lv = list(E.leaves_of(tree))
        if len(lv) != 1:
            continue
        st = lv[0]
        r = eng.force(st, st.ret)
        n += 1
        if r[0] != 'enum':
            continue
        a = ctx.lib.adts[ctx.adt('Params')]
        for i, f in enumerate(a['variants'][0]['fields']):
            v = r[4][i]
            if isinstance(v, tuple) and v and v[0] == 'map' and v[1] is None:
                out.setdefault(f['name'], {})[meth] = {k[2] for k, _ in v[2]}
    return out, n


def dt_level(ctx, interest=()):
    """abstract interpretation of prayer_times_dt with the policy layer replaced by its summary
    (a map with the six keys and free results - justified by R5.1 / the skeleton worlds)"""
    pl = ctx.role('policy_layer')
    eng = ctx.engine(opaque_roles=('normalisers', 'eph_ctors'))

    def hook(eng, st, fr, t, name, args):
        if name == pl:
            pv = tuple(eng.purify(st, a) for a in args if not (isinstance(a, tuple) and a and a[0] == 'map'))
            items = []
            for k in SIX:
                kv = ctx.prayer_key(k)
                items.append((kv, ('app', 'policy-layer-result', (kv,) + pv)))
            items.sort(key=lambda kv: repr(kv[0]))
            return ('map', None, tuple(items))
        return None
    eng.hooks['call'] = hook
    eng.interest |= set(interest)
    dt = ctx.role('dt')
    args = eng.sym_args(dt)
    tree = eng.call_entry(dt, args)
    return eng, tree


def run(ctx, rep):
    rep.explanation = (
        'Inventory of every panic-capable call / Assert terminator and every loop in the MIR bodies reachable from '
        'prayer_times_dt; each is discharged by abstract interpretation over all skeleton worlds (no world reaches it in a '
        'panicking state), by the key tables of Params::new / the hours builder, by an upper-bound argument on the '
        'NaiveTime operands, by loop classification, or by a reviewed entry. Numeric divergence (inf/NaN inputs) is not modelled.')
    rep.trusted = ['rustc MIR', 'std models (analysis/models.py)', 'valid inputs are finite (constructors reject NaN/inf)',
                   'Params derived from Params::new keeps its map keys', W.policy.FEASIBLE_NOTE]
    rep.assumptions = ['numeric overflow to +/-inf and NaN propagation are not modelled', 'chrono date arithmetic stays in range for dates 1600..2399']
    dt = ctx.role('dt')
    reach = ctx.reach(dt)
    sites = static_sites(ctx, reach)
    rep.extra['functions_analysed'] = len(reach)
    rep.extra['sites'] = len(sites)
    by_cls = {}
    for s in sites:
        by_cls[s[2]] = by_cls.get(s[2], 0) + 1
    rep.extra['sites_by_class'] = by_cls
    rep.floor('panic-capable sites', len(sites), 60)
    rep.floor('unwrap-like sites', by_cls.get('unwrap', 0), 6)
    rep.floor('map index sites', by_cls.get('map-index', 0), 10)

    # ---- abstract runs ------------------------------------------------------
    pa = W.get(ctx, rep)
    eng2, tree2 = dt_level(ctx)
    visited = dict(pa.visited)
    for k, v in eng2.visited.items():
        visited[k] = visited.get(k, 0) + v
    events = list(pa.events) + [dict(e, pattern=None, policy=None) for e in eng2.log]
    # the ephemeris kernel (opaque in the runs above) is interpreted once on its own
    n_kernel = 0
    for ctor in ctx.role('eph_ctors'):
        eng3 = ctx.engine(opaque_roles=('normalisers',))
        eng3.use_cache = False
        tree3 = eng3.call_entry(ctor, eng3.sym_args(ctor))
        n_kernel += sum(1 for _ in E.leaves_of(tree3))
        for k, v in eng3.visited.items():
            visited[k] = visited.get(k, 0) + v
        events += [dict(e, pattern=None, policy=None) for e in eng3.log]
        if eng3.incomplete:
            rep.ob('engine', 'incomplete-kernel', None, f'abstraction bound reached: {eng3.incomplete[:3]}')
    rep.floor('kernel outcomes', n_kernel, 1)
    if pa.incomplete or eng2.incomplete:
        rep.ob('engine', 'incomplete', None, f'abstraction bound reached: {(pa.incomplete + eng2.incomplete)[:3]}')
    rep.extra['worlds'] = len(pa.worlds)
    rep.extra['dt_level_leaves'] = sum(1 for _ in E.leaves_of(tree2))
    rep.floor('dt-level outcomes', rep.extra['dt_level_leaves'], 1)

    keys_new, n_arms = params_new_keys(ctx, rep)
    rep.floor('Params::new arms', n_arms, 9)
    rep.sample({'Params::new keys': {f: sorted(set.intersection(*m.values())) for f, m in keys_new.items()}})

    # ---- panic events --------------------------------------------------------
    ordinal = {}
    for (p, bi, cls, n) in sites:
        lst = ordinal.setdefault((p, cls, n), [])
        lst.append(bi)
    def site_key(fn, bi, cls, n):
        lst = ordinal.get((fn, cls, n), [])
        i = lst.index(bi) if bi in lst else '?'
        return f'{fn}:{cls}:{last_seg(n)}#{i}'

    panics_at = {}
    for e in events:
        if e['kind'] != 'panic':
            continue
        fn, bi = e['stack'][-1]
        panics_at.setdefault((fn, bi), []).append(e)

    n_r75 = 0
    for (p, bi, cls, n) in sites:
        key = site_key(p, bi, cls, n)
        where = ctx.lib.bodies[p].blocks[bi]['term'].get('span')
        evs = panics_at.get((p, bi), [])
        vis = visited.get((p, bi), 0)
        if cls == 'unwrap':
            if not vis:
                rep.ob('R7.1', key, None, 'site not reached by the abstract runs', where=where)
                continue
            real = []
            for e in evs:
                info = e['info']
                val = info[3] if len(info) > 3 else None
                if val is not None and val[0] == 'app' and val[1].endswith('NaiveTime::from_hms_opt'):
                    # R7.5: the three operands are bounded on this path
                    n_r75 += 1
                    facts = {}
                    for c, v in e['asm'].items():
                        if isinstance(v, bool):
                            facts.update(D.facts_from_cond(c, v))
                    bad = []
                    for arg, lim, nm in zip(val[2], (24.0, 60.0, 60.0), ('hour', 'minute', 'second')):
                        ub = D.upper_bound(arg, facts)
                        if ub is None or ub[0] > lim or (ub[0] == lim and not ub[1]):
                            bad.append(f'{nm} operand {show(arg, maxd=5)[:120]} has no bound < {lim:g} (got {ub})')
                    if bad:
                        rep.ob('R7.5', key, False, 'NaiveTime::from_hms_opt(..).unwrap(): ' + '; '.join(bad), where=where,
                               world=[f'{show(c)[:100]}={v}' for c, v in e['asm'].items()][:8])
                    else:
                        rep.ob('R7.5', key, True, 'operands bounded: hour < 24 via the >=24 guard, minute/second are 60*fraction')
                else:
                    real.append(e)
            if real:
                e = real[0]
                rep.ob('R7.1', key, False,
                       f'{e["info"][0]} reachable: policy={e.get("policy")} invalid={[k for k in SIX if e.get("pattern") and not e["pattern"][k]]} '
                       + ' '.join(f'{show(c, maxd=4)[:70]}={v}' for c, v in e['asm'].items() if c[0] != 'discr')[:300],
                       where=where, stack=e['stack'], worlds=len(real))
            elif not evs:
                rep.ob('R7.1', key, True, f'no world reaches it in a panicking state ({vis} abstract executions)')
        elif cls == 'borrow':
            if not vis:
                rep.ob('R7.3', key, None, 'site not reached by the abstract runs', where=where)
            elif evs:
                e = evs[0]
                rep.ob('R7.3', key, False, f'RefCell already borrowed: policy={e.get("policy")}', where=where, stack=e['stack'])
            else:
                rep.ob('R7.3', key, True, f'no conflicting guard live in any world ({vis} executions)')
        elif cls == 'map-index':
            if not vis:
                rep.ob('R7.2', key, None, 'site not reached by the abstract runs', where=where)
            elif evs:
                e = evs[0]
                rep.ob('R7.2', key, False, f'key {show(e["info"][1])} missing from a map built by the code: policy={e.get("policy")}',
                       where=where, stack=e['stack'])
            else:
                rep.ob('R7.2', key, True, f'key present in every world ({vis} executions)')
        elif cls == 'seq-index' or cls.startswith('assert:'):
            if not vis:
                rep.ob('R7.8', key, None, 'kernel site not reached by the abstract runs', where=where)
            elif evs:
                rep.ob('R7.8', key, False, f'index out of bounds reachable: {evs[0]["info"]}', where=where)
            else:
                rep.ob('R7.8', key, True, f'index within the container for every abstract execution ({vis})')
        elif cls == 'chrono':
            ok = False
            for (creg, freg, reason) in REVIEWED:
                # the reviewed site is identified by what it is (a method of the Julian-Day type stepping its date by whole
                # days), not by its name
                in_role = re.search(freg, p) is not None
                if not in_role:
                    try:
                        from .c20 import jd_ctor
                        jd_adt = ctx.lib.bodies[jd_ctor(ctx)].locals[0].get('adt')
                        bb = ctx.lib.bodies[p]
                        in_role = bb.locals[0].get('adt') == jd_adt and any(
                            (bb.locals[i].get('ref') or bb.locals[i]).get('adt') == jd_adt for i in range(1, bb.arg_count + 1))
                    except Exception:
                        in_role = False
                if re.search(creg, n) and in_role:
                    ok = True
                    rep.ob('R7.8', key, True, 'reviewed: ' + reason)
            if not ok:
                rep.ob('R7.8', key, False, f'unreviewed panic-capable chrono call {n}', where=where)
        else:
            rep.ob('R7.8', key, False, f'unreviewed panic-capable site: {cls} {n}', where=where)
    rep.extra['from_hms_guard_paths'] = n_r75
    rep.floor('NaiveTime guard paths', n_r75, 4)

    # assert-maybe events that could not be folded: bounds that depend on a free value
    for e in events:
        if e['kind'] == 'assert-maybe' and not any(x in e['msg'] for x in POINTER_ASSERT):
            fn, bi = e['stack'][-1]
            rep.ob('R7.7', f'{fn}:assert:{e["msg"].split(" ")[0]}', None, f'assertion on a free value: {show(e["cond"])[:120]}')

    # ---- R7.2 key presence for the parameter maps -----------------------------
    reads = {}
    for e in events:
        if e['kind'] in ('map-index', 'assume-key'):
            m = e.get('map')
            if m == 'concrete' or m is None:
                continue
            fld = None
            for x in subterms(m):
                if x and x[0] == 'field' and x[1] == ('param', 'params'):
                    fld = x[2]
            k = e['key']
            kn = k[2] if isinstance(k, tuple) and k and k[0] == 'enum' else None
            reads.setdefault((fld, kn), e)
    n_reads = 0
    for (fld, kn), e in sorted(reads.items(), key=str):
        if fld is None:
            rep.ob('R7.2', f'read:{show(e.get("map"))[:60]}[{kn}]', None, 'map of unknown origin')
            continue
        n_reads += 1
        arms = keys_new.get(fld, {})
        if kn is None:
            rep.ob('R7.2', f'params.{fld}[<variable key>]', None, f'non-constant key {show(e["key"])[:60]}')
            continue
        missing = [m for m, ks in arms.items() if kn not in ks]
        rep.ob('R7.2', f'params.{fld}[{kn}]', None if not arms else not missing,
               f'inserted by every arm of Params::new' if arms and not missing else f'not inserted for method discriminants {missing}',
               where=e.get('span'))
    rep.floor('parameter-map reads', n_reads, 12)

    # ---- R7.4 loops ------------------------------------------------------------
    n_loops = 0
    for p in sorted(reach):
        b = ctx.lib.bodies[p]
        if b.kind == 'Promoted':
            continue
        for h, blocks in b.natural_loops().items():
            n_loops += 1
            cls, detail = classify_loop(ctx, b, h, blocks)
            rep.ob('R7.4', f'{p}:loop', cls, detail, where=b.span)
    rep.floor('loops', n_loops, 1)
    rep.extra['loops'] = n_loops
    # recursion: a cycle in the call graph below the entry point needs a termination argument of its own
    g = ctx.lib.call_graph()

    def below(n):
        seen, todo = set(), list(g.get(n, ()))
        while todo:
            x = todo.pop()
            if x not in seen:
                seen.add(x)
                todo.extend(g.get(x, ()))
        return seen
    n_rec = 0
    for p in sorted(reach):
        if p not in g or p not in below(p):
            continue
        n_rec += 1
        if p in g.get(p, ()):
            cls, detail = classify_recursion(ctx, p)
        else:
            cls, detail = None, 'mutual recursion: termination not decided'
        rep.ob('R7.4', f'{p}:recursion', cls, detail, where=ctx.lib.bodies[p].span)
    rep.extra['recursive_functions'] = n_rec
    # the range APIs compute the same times for many days: their own failure sites (a division by the day threshold or the
    # parallelism, an unwrap on a channel result) are inventoried by C15 (R15.5, R15.3 division-guarded) and included here
    from . import shared, c15 as _c15
    shared.include(ctx, rep, _c15.run, {'R15.5', 'R15.3'}, keys=lambda k: k != 'same-parallelism-value' and k != 'work-list',
                   why='computing times for a range must not panic either')


def classify_recursion(ctx, p):
    """self-recursion `f(.., x, ..)` made under a guard on its own by-value arguments: with d = lhs - rhs of the guard, every
    recursive call must move d towards the side on which the guard fails, by an amount bounded away from zero over the
    property's parameter domain (minute offsets in [-1500, 1500])."""
    eng = ctx.engine()
    args = eng.sym_args(p)
    try:
        tree = eng.call_entry(p, args)
        list(E.leaves_of(tree))
    except Exception as ex:     # noqa
        return None, f'recursive function not analysed: {type(ex).__name__}'
    calls = [c for c in eng.recursive_calls if c[0] == p]
    if not calls:
        return None, 'the recursive call is not reached by the analysis'
    byval = [(i, a) for i, a in enumerate(args) if a[0] == 'param']

    def subst(t, m):
        if t in m:
            return m[t]
        if isinstance(t, tuple):
            return tuple(subst(x, m) for x in t)
        return t

    def bounds(pl):
        lo = hi = 0.0
        for mono, c in pl.items():
            if mono == ():
                r = (1.0, 1.0)
            elif len(mono) == 1 and mono[0][0] == 'mapget' and mono[0][1] == ('field', ('param', 'params'), 'minutes'):
                r = (-1500.0, 1500.0)
            else:
                return None
            a, b = sorted((c * r[0], c * r[1]))
            lo += a
            hi += b
        return lo, hi
    verdicts = []
    for (_, cargs, asm, _frm) in calls:
        m = {a: cargs[i] for i, a in byval if i < len(cargs)}
        found = None
        for c, pol in asm.items():
            if not (isinstance(c, tuple) and c and c[0] == 'bin' and c[1] in ('Lt', 'Le', 'Gt', 'Ge')):
                continue
            if not any(x in m for x in subterms(c)):
                continue
            d = ('bin', 'Sub', c[2], c[3])
            step = D._padd(D.poly(E.intern(subst(d, m))), D.poly(E.intern(d)), -1.0)
            # the call is made while d < 0 (Lt/Le taken, or Gt/Ge refused): d has to grow; otherwise it has to shrink
            grows = (c[1] in ('Lt', 'Le')) == bool(pol)
            b = bounds(step)
            found = (c, pol, step, grows, b)
            break
        if found is None:
            verdicts.append((None, 'no guard on the function\'s own arguments dominates the recursive call'))
            continue
        c, pol, step, grows, b = found
        sp = D.show_poly(step, show)
        if b is None:
            verdicts.append((None, f'per-call change of the guarded quantity is {sp}: not bounded'))
        elif (grows and b[0] > 0) or (not grows and b[1] < 0):
            verdicts.append((True, f'every recursive call moves the guarded quantity by {sp} in [{b[0]:g}, {b[1]:g}] towards the exit'))
        else:
            verdicts.append((False, f'the recursive call is made while {show(c, maxd=4)[:80]} is {bool(pol)}, and changes the guarded quantity by '
                             f'{sp}, which over minute offsets in [-1500, 1500] ranges over [{b[0]:g}, {b[1]:g}]: for some offsets the call '
                             'does not approach the exit - unbounded recursion (stack overflow)'))
    for v in verdicts:
        if v[0] is False:
            return v
    for v in verdicts:
        if v[0] is None:
            return v
    return verdicts[0]


ITER_NEXT = re.compile(r'::next$')
FINITE_ITERS = ('std::ops::Range<', 'std::ops::RangeInclusive<', 'std::slice::Iter<', 'std::vec::IntoIter<',
                'std::collections::hash_map::Iter<', 'std::iter::Take<', 'std::iter::Enumerate<std::slice::Iter<',
                'std::collections::btree_map::Iter<')


def classify_loop(ctx, b, h, blocks):
    """True: terminates by construction; False: definitely suspicious; None: unclassified"""
    # iterator loops: the header region calls Iterator::next on a finite std iterator and exits on None
    for bi in blocks:
        t = b.blocks[bi]['term']
        if t['k'] == 'call' and ITER_NEXT.search(callee_name(t) or ''):
            a = t['args'][0]
            ty = a.get('place', {}).get('ty', '')
            inner = ty[5:] if ty.startswith('&mut ') else ty
            if inner.startswith(FINITE_ITERS):
                return True, f'iterator loop over a finite std iterator ({inner[:60]})'
            return None, f'iterator loop over {inner[:80]}'
    # while x < c { x += k } with constant k > 0
    hb = b.blocks[h]
    t = hb['term']
    if t['k'] == 'switch':
        cond = None
        for s in hb['stmts']:
            if s['k'] == 'assign' and s['rv']['k'] == 'bin' and s['rv']['op'] in ('Lt', 'Le', 'Gt', 'Ge'):
                cond = s['rv']
        if cond is not None:
            # find the induction update inside the loop
            for bi in blocks:
                for s in b.blocks[bi]['stmts']:
                    if s['k'] == 'assign' and s['rv']['k'] == 'bin' and s['rv']['op'] in ('Add', 'Sub') and not s['place']['p']:
                        rv = s['rv']
                        if rv['a']['k'] in ('copy', 'move') and rv['a']['place']['l'] == s['place']['l'] and rv['b']['k'] == 'const' \
                                and 'f64' in rv['b']:
                            k = float(rv['b']['f64'])
                            up = (rv['op'] == 'Add') == (k > 0)
                            want_up = cond['op'] in ('Lt', 'Le')
                            if k != 0 and up == want_up:
                                return True, f'counting loop: induction variable moves by the constant {k:g} towards the exit bound'
                            return False, f'loop induction step {rv["op"]} {k:g} does not move towards the exit condition {cond["op"]}'
    return None, 'unclassified loop shape'
