"""Imsaak builder (role: the callee of prayer_times_dt whose result is inserted under Prayer::Imsaak).

Checked: it perturbs only the Fajr entries of a *clone* of the parameters, by the documented amounts per branch,
reruns the pipeline and returns the rerun's Fajr entry converted under the Fajr key with the perturbed parameters.
"""
from ..context import AnchorLost, SIX, last_seg
from .. import engine as E
from .. import domains as D
from ..terms import show, subterms
from .common import const_f64

_CACHE = {}
P = ('param', 'params')


def find_builder(ctx):
    dt = ctx.role('dt')
    b = ctx.lib.bodies[dt]
    from ..facts import callee_name
    c = []
    pl = ctx.role('policy_layer')
    for n in ctx.reach(dt):
        bb = ctx.lib.bodies.get(n)
        if bb is None or n == dt or bb.kind not in ('Fn', 'AssocFn'):
            continue
        rt = bb.locals[0]['s']
        # the function (anywhere below prayer_times_dt) that returns one Result<PrayerTime, ()> and reruns the pipeline
        if rt.startswith('std::result::Result<') and 'PrayerTime' in rt and pl in ctx.reach(n):
            c.append(n)
    c = sorted(set(c))
    if len(c) != 1:
        raise AnchorLost('Imsaak builder', str(c))
    return c[0]


def analyse(ctx):
    if 'r' in _CACHE:
        return _CACHE['r']
    ib = find_builder(ctx)
    pl = ctx.role('policy_layer')
    conv = ctx.role('time_converter')
    eng = ctx.engine(opaque_roles=('normalisers', 'eph_ctors'))
    eng.opaque.add(ctx.role('hours_builder'))
    eng.use_cache = False
    pcalls = []
    ccalls = []
    counter = [0]

    def hook(eng, st, fr, t, name, args):
        if name == pl:
            pv = None
            for a in args:
                x = eng.purify(st, a)
                if x == P or (isinstance(x, tuple) and x and x[0] == 'enum' and last_seg(x[1]) == 'Params'):
                    pv = x
                y = x
                while isinstance(y, tuple) and y and y[0] == 'upd':
                    y = y[1]
                if y == P and x != P:
                    pv = x
            counter[0] += 1
            tag = counter[0]
            pcalls.append((tag, pv, dict(st.asm)))
            items = []
            for k in SIX:
                kv = ctx.prayer_key(k)
                items.append((kv, ('app', 'policy-layer-result', (kv, ('c', 'usize', tag, None)))))
            items.sort(key=lambda kv: repr(kv[0]))
            return ('map', None, tuple(items))
        if name == conv:
            ccalls.append((tuple(eng.purify(st, a) for a in args), dict(st.asm)))
        return None
    eng.hooks['call'] = hook
    body = ctx.lib.bodies[ib]
    args = eng.sym_args(ib)
    for i in range(1, body.arg_count + 1):
        ty = body.locals[i]
        inner = ty.get('ref') or ty
        adt = inner.get('adt', '')

        def by_type(t_, fallback):
            in_ = t_.get('ref') or t_
            a_ = in_.get('adt', '') or ''
            nm_ = 'params' if a_ == ctx.adt('Params') else 'tad' if a_ == ctx.role('eph_type') else 'weather' if a_.endswith('Weather') else None
            if nm_ is None:
                return None
            return E.mk_ref(('S', ('param', nm_)), ()) if 'ref' in t_ else ('param', nm_)
        v = by_type(ty, None)
        if v is None and adt in ctx.lib.adts and len(ctx.lib.adts[adt]['variants']) == 1:
            # a private context struct carrying the parameters / ephemeris / weather: build it from its field types
            fs = []
            for j, f in enumerate(ctx.lib.adts[adt]['variants'][0]['fields']):
                fv = by_type(f['ty'], None)
                fs.append(fv if fv is not None else ('param', f.get('name') or f'f{j}'))
            sv = E.mk_enum(adt, ctx.lib.adts[adt]['variants'][0]['name'], 0, tuple(fs))
            v = E.mk_ref(('S', sv), ()) if 'ref' in ty else sv
        if v is None:
            v = E.mk_ref(('S', ('param', f'arg{i}')), ()) if 'ref' in ty else ('param', f'arg{i}')
        args[i - 1] = v
    tree = eng.call_entry(ib, args)
    leaves = list(E.leaves_of(tree))
    r = dict(builder=ib, pcalls=pcalls, ccalls=ccalls, leaves=leaves, eng=eng)
    _CACHE['r'] = r
    return r


def modifications(ctx, pv):
    """{(field, key): new value} of a Params value relative to the original parameters; None if not comparable"""
    if pv == P:
        return {}
    if isinstance(pv, tuple) and pv and pv[0] == 'upd':
        out = {}
        x = pv
        seen_fields = set()
        while isinstance(x, tuple) and x and x[0] == 'upd':
            (i, name), v = x[2], x[3]
            if name not in seen_fields:
                seen_fields.add(name)
                base = ('field', P, name)
                if isinstance(v, tuple) and v and v[0] == 'map' and v[1] == base:
                    for k, nv in v[2]:
                        out[(name, k[2] if k[0] == 'enum' else show(k)[:30])] = nv
                elif v != base:
                    out[(name, '*')] = v
            x = x[1]
        return out if x == P else None
    if not (isinstance(pv, tuple) and pv and pv[0] == 'enum'):
        return None
    a = ctx.lib.adts[ctx.adt('Params')]
    out = {}
    for i, f in enumerate(a['variants'][0]['fields']):
        v = pv[4][i]
        base = ('field', P, f['name'])
        if v == base:
            continue
        if isinstance(v, tuple) and v and v[0] == 'map' and v[1] == base:
            for k, nv in v[2]:
                out[(f['name'], k[2] if k[0] == 'enum' else show(k)[:30])] = nv
        else:
            out[(f['name'], '*')] = v
    return out


def mg(field, key, ctx):
    return ('mapget', ('field', P, field), ctx.prayer_key(key))


def check(ctx, rep, rule, entry=True):
    r = analyse(ctx)
    eng = r['eng']
    rep.floor('pipeline reruns inside the Imsaak builder', len(r['pcalls']), 2)
    DEF = None
    for cst in ctx.lib.bodies:
        if cst.endswith('Params::DEF_IMSAAK_ANGLE'):
            DEF = cst
    if eng.incomplete:
        rep.ob('engine', 'incomplete-imsaak', None, str(eng.incomplete[:2]))
    iF, iI = mg('intervals', 'Fajr', ctx), mg('intervals', 'Imsaak', ctx)
    mF, aF, aI = mg('minutes', 'Fajr', ctx), mg('angles', 'Fajr', ctx), mg('angles', 'Imsaak', ctx)
    import itertools
    cases = []
    for (tag, pv, asm0) in r['pcalls']:
        mods0 = modifications(ctx, pv)
        if mods0 is None:
            rep.ob(rule, 'imsaak:params-shape', None, f'rerun parameters not comparable: {show(pv, maxd=2)[:80]}')
            continue
        # the branches of the builder have been joined: split again on the conditions that select the values
        conds = []
        for v in mods0.values():
            for x in subterms(v):
                if isinstance(x, tuple) and x and x[0] == 'ite':
                    if x[1] not in conds and x[1] not in asm0:
                        conds.append(x[1])
        for bits in itertools.product([True, False], repeat=len(conds)):
            asm = dict(asm0)
            asm.update(dict(zip(conds, bits)))
            mods = {}
            for (fld, key), v in mods0.items():
                nv = E.specialise(v, asm)
                if nv != ('mapget', ('field', P, fld), ctx.prayer_key(key) if key in SIX + ['Imsaak'] else None):
                    mods[(fld, key)] = nv
            cases.append((tag, mods, asm))
    rep.floor('Imsaak branch cases', len(cases), 4)
    for (tag, mods, asm) in cases:
        keys = set(mods)
        okk = keys <= {('angles', 'Fajr'), ('intervals', 'Fajr'), ('minutes', 'Fajr')} and len(keys) == 1
        rep.ob(rule, 'imsaak:only-fajr-entries', okk,
               f'the rerun perturbs exactly one Fajr entry of the cloned parameters: {sorted(keys)}' if okk else
               f'the Imsaak rerun modifies {sorted(keys)} (only the Fajr entry of angles / intervals / minutes may change)')
        if not okk:
            continue
        (fld, key), nv = next(iter(mods.items()))
        nv = E.specialise(nv, asm)
        pn = D.poly(nv)
        # which amount is documented for this branch
        def zero(term):
            for c, v in asm.items():
                if c[0] == 'bin' and c[1] == 'Eq' and c[2] == term and const_f64(c[3]) == 0.0:
                    return bool(v)
            return None
        extreme = any(c[0] in ('field',) or (c[0] == 'bin' and False) for c in ())
        # the extreme rerun is recognised by the flag condition of the first result in the assumptions
        is_ext = any('policy-layer-result' in repr(c) and v is True and c[0] != 'discr' for c, v in asm.items())
        if is_ext:
            trig = set()
            for c, v in asm.items():
                for x in subterms(c):
                    if x and x[0] == 'app' and x[1] == 'policy-layer-result':
                        trig.add(x[2][0][2])
            rep.ob(rule, 'imsaak:extreme-rerun-trigger', trig == {'Fajr'},
                   'the extreme rerun is decided by the (perturbed) Fajr entry' if trig == {'Fajr'} else
                   f'the extreme rerun is decided by the entries {sorted(trig)} (must be Fajr)')
        amount_int = None
        zi = zero(iI)
        if zi is True:
            amount_int = D.poly(E.C('f64', 1.5))
        elif zi is False:
            amount_int = D.poly(iI)
        if fld == 'intervals':
            exp = None if amount_int is None else D._padd(D.poly(iF), amount_int)
            okv = zero(iF) is False and exp is not None and D.poly_equal(pn, exp)
            what = 'intervals[Fajr] + (intervals[Imsaak] or 1.5)'
        elif fld == 'minutes':
            if is_ext:
                exp = None if amount_int is None else D._padd(D.poly(mF), amount_int, -1.0)
                okv = exp is not None and D.poly_equal(pn, exp)
                what = 'minutes[Fajr] - (intervals[Imsaak] or 1.5) for an extreme Fajr'
            else:
                exp = D._padd(D.poly(mF), D.poly(iI), -1.0)
                okv = zero(iF) is True and zi is False and D.poly_equal(pn, exp)
                what = 'minutes[Fajr] - intervals[Imsaak]'
        else:
            exp = D._padd(D.poly(aF), D.poly(aI))
            okv = zero(iF) is True and zi is True and D.poly_equal(pn, exp)
            what = 'angles[Fajr] + angles[Imsaak]'
        rep.ob(rule, f'imsaak:{fld}-branch', okv,
               f'{fld}[Fajr] := {what}' if okv else
               f'{fld}[Fajr] := {show(nv, maxd=5)[:140]} (documented: {what}) under ' +
               ', '.join(f'{show(c, maxd=3)[:50]}={v}' for c, v in asm.items())[:200])
    # the value returned: Fajr entry of the last rerun converted under the Fajr key with the perturbed parameters
    n_ok = 0
    for (a, asm) in r['ccalls']:
        key = [x for x in a if isinstance(x, tuple) and x and x[0] == 'enum' and last_seg(x[1]) == 'Prayer']
        okk = bool(key) and key[0][2] == 'Fajr'
        src = [x for x in subterms(a) if x and x[0] == 'app' and x[1] == 'policy-layer-result']
        oks = bool(src) and all(x[2][0][2] == 'Fajr' for x in src)
        rep.ob(rule, 'imsaak:is-rerun-fajr', okk and oks,
               'Imsaak is the Fajr entry of the rerun converted under the Fajr key' if okk and oks else
               f'Imsaak converts key {key and key[0][2]} from entries {[x[2][0][2] for x in src]}')
        if okk and oks:
            n_ok += 1
    rep.floor('Imsaak conversions', n_ok, 1)
    if not entry:
        return
    # the entry of the result: what the day's computation stores under Imsaak is the builder's value itself - anything applied to
    # it afterwards (a clamp against another clock time, an offset) works on a finished time of day and not on the angle
    from . import c07 as _c07
    ib = r['builder']
    eng2 = ctx.engine(opaque_roles=('normalisers', 'eph_ctors'))
    eng2.opaque.add(ib)
    pl = ctx.role('policy_layer')
    eng2.opaque.add(pl)
    dt = ctx.role('dt')
    tree2 = eng2.call_entry(dt, eng2.sym_args(dt))
    n_e = 0
    from .common import ite_leaves
    for st in E.leaves_of(tree2):
        res = st.ret
        ent = [v for k, v in res[2] if k[0] == 'enum' and k[2] == 'Imsaak'] if (isinstance(res, tuple) and res and res[0] == 'map') else []
        if not ent:
            # the result is assembled in a way that leaves no readable entry (a collected sequence, a helper): nothing to compare
            rep.ob(rule, 'imsaak:entry-is-builder-value', None, f'no readable Imsaak entry in {show(res, maxd=2)[:80]}')
            continue
        n_e += 1
        pv = eng2.purify(st, ent[-1])
        # a join of two paths leaves `if c { builder(..a) } else { builder(..b) }`: every case must be the builder's value
        bad = [v for c, v in ite_leaves(pv) if not (isinstance(v, tuple) and v and v[0] == 'app' and v[1] == ib)]
        okv = not bad
        rep.ob(rule, 'imsaak:entry-is-builder-value', okv,
               'the Imsaak entry is the builder\'s value, unmodified' if okv else
               f'the Imsaak entry is {show(bad[0], maxd=4)[:160]}: the builder\'s value is changed after it was computed')
    rep.extra['imsaak_entries_compared'] = n_e
    # the flag of the value returned: Imsaak is "extreme" exactly when the Fajr entry it was converted from is - the builder
    # itself replaces nothing, so it has nothing of its own to flag (with no policy, nothing is flagged)
    n_f = 0
    for st in r['leaves']:
        ret = eng.purify(st, st.ret)
        for c, v in ite_leaves(ret):
            if not (isinstance(v, tuple) and v and v[0] == 'enum' and v[2] == 'Ok' and v[4]):
                continue
            pt = v[4][0]
            if not (isinstance(pt, tuple) and pt and pt[0] == 'enum'):
                continue
            a_ = ctx.lib.adts.get(pt[1])
            if not a_:
                continue
            flags = [x for f_, x in zip(a_['variants'][0]['fields'], pt[4]) if f_['ty']['s'] == 'bool']
            if len(flags) != 1:
                continue
            n_f += 1
            fl = flags[0]
            okf = isinstance(fl, tuple) and fl and fl[0] == 'field' and fl[2] == 'extreme' and \
                any(x and x[0] == 'app' and x[1] == 'policy-layer-result' and x[2][0][2] == 'Fajr' for x in subterms(fl)) and \
                not any(x and x[0] in ('bin', 'ite', 'un') for x in subterms(fl))
            rep.ob(rule, 'imsaak:flag-is-fajr-flag', okf,
                   'Imsaak carries the extreme flag of the Fajr entry it is converted from' if okf else
                   f'the extreme flag of Imsaak is {show(fl, maxd=4)[:140]}: not simply the flag of the Fajr entry - Imsaak can be flagged '
                   'although no policy replaced anything')
    rep.extra['imsaak_flags_compared'] = n_f
