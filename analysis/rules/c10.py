"""C10 - nearest-latitude and portion-of-night fallbacks follow their stated formulas (partial)."""
from ..context import SIX, last_seg
from .. import engine as E
from .. import domains as D
from ..terms import show, subterms
from .common import const_f64
from . import conv as CV
from . import worlds as W

P = ('param', 'params')


def c(x):
    return E.C('f64', float(x))


def B(op, a, b):
    return ('bin', op, a, b)


def expected_portion(ctx, policy, k):
    """documented value of k (Fajr / Isha) under a portion policy, as a term over conv:Shurooq / conv:Maghrib and parameters"""
    S, M = W.policy.conv_atom('Shurooq'), W.policy.conv_atom('Maghrib')
    ang = ('mapget', ('field', P, 'angles'), ctx.prayer_key(k))
    itv = ('mapget', ('field', P, 'intervals'), ctx.prayer_key(k))
    night = B('Sub', c(24), B('Sub', M, S))
    day = B('Sub', M, S)
    base, op = (S, 'Sub') if k == 'Fajr' else (M, 'Add')
    if policy.startswith('SeventhOfNight'):
        return B(op, base, B('Div', night, c(7)))
    if policy.startswith('SeventhOfDay'):
        return B(op, base, B('Div', day, c(7)))
    if policy == 'AngleBased':
        return B(op, base, B('Mul', B('Div', ang, c(60)), night))
    if policy.startswith('MinutesFromMaghrib'):
        return B(op, base, B('Div', itv, c(60)))
    return None


def run(ctx, rep):
    rep.explanation = (
        'Decided on the skeleton worlds with polynomial normal forms of the replaced values: nearest-latitude worlds take the same-key '
        'entry of the conventional computation at coordinates that differ from the request in latitude only (the policy payload); '
        'seventh-of-night/day, angle-based and minutes-from-maghrib values equal the documented expressions in Shurooq/Maghrib and '
        'the parameters (polynomial identity) and are applied where the policy says so; the interval definition is re-applied after '
        'every policy except the three that consume the intervals; every replaced value is flagged. The 3-second numeric agreement is '
        'not decided.')
    rep.trusted = ['rustc MIR', 'two different polynomials in free atoms are different functions', W.policy.FEASIBLE_NOTE]
    table = W.classify_policies(ctx)
    pa = W.get(ctx, rep)
    c0 = CV.get(ctx)
    ict = W.interval_cond_terms(pa)
    eph_ctors = set(ctx.role('eph_ctors'))
    # ---- R10.1 nearest latitude ----------------------------------------------------------------------------------------
    adj_terms = {}
    for w in pa.worlds:
        if not (w.policy or '').startswith('NearestLatitude') or not w.final:
            continue
        for k in SIX:
            cell = w.final[k]
            if cell[0] == 'Ok':
                for x in subterms(cell[1]):
                    if x and x[0] == 'app' and x[1] in eph_ctors and any(y and y[0] == 'as' and y[2] == w.policy for y in subterms(x)):
                        adj_terms.setdefault(w.policy, set()).add(x)
    n_nl = 0
    eq_memo = {}
    for pol, terms in sorted(adj_terms.items()):
        rep.ob('R10.1', f'{pol}:one-recomputation', len(terms) == 1, f'{len(terms)} substitute ephemeris term(s)')
        if len(terms) != 1:
            continue
        adj = next(iter(terms))
        # coordinates: request's coordinates with latitude := payload
        req = ('field', ('param', 'tad'), 'coords')
        payl = ('field', ('as', ('field', P, 'extreme_latitude_method'), pol), '0')
        comps = None
        cadt = ctx.lib.adts.get(ctx.adt('Coordinates'))
        names = [f['name'] for f in cadt['variants'][0]['fields']]
        for y in subterms(adj):
            if y and y[0] == 'upd' and y[1] == req:
                comps = {n: ('field', req, n) for n in names}
                comps[y[2][1]] = y[3]
            elif y and y[0] == 'enum' and last_seg(y[1]) == 'Coordinates' and len(y[4]) == len(names):
                comps = dict(zip(names, y[4]))
        okc = comps is not None and comps.get('latitude') == payl and \
            all(v == ('field', req, n) for n, v in comps.items() if n != 'latitude')
        rep.ob('R10.1', f'{pol}:substitute-coordinates', okc,
               'request coordinates with only the latitude replaced by the policy\'s latitude' if okc else
               f'substitute coordinates: {({n: show(v, maxd=3)[:60] for n, v in comps.items()} if comps else None)}')
        reuse = any(y == ('param', 'tad') or y == ('field', ('param', 'tad'), 'astro_day') for a in adj[2] for y in subterms(a)
                    if not (isinstance(a, tuple) and a and (a[0] == 'upd' or (a[0] == 'enum' and last_seg(a[1]) == 'Coordinates'))))
        rep.ob('R10.1', f'{pol}:same-day-ephemeris', reuse, 'the day\'s ephemeris is reused' if reuse else 'a different day/ephemeris is used')
        # expected same-key values: the conventional builder at the substitute ephemeris
        exp = CV.Conv(ctx, tad_term=adj)
        scope = table[pol][0]
        keys = ['Fajr', 'Isha'] if scope == 'fajr_isha' else ['Fajr', 'Shurooq', 'Asr', 'Maghrib', 'Isha']
        for w in pa.worlds:
            if w.policy != pol or not w.final:
                continue
            n_nl += 1
            gate = table[pol][1]
            for k in ('Fajr', 'Isha'):
                # where the policy applies and the substitute time exists it must be taken
                g, pay, _ = exp.guard_and_payload(k)
                if g is None:
                    continue
                gv = E.cond_value(g, w.asm)
                if gv is None and g[0] == 'app':
                    gv = w.asm.get(g)
                ic0 = W.interval_conds(w.asm)
                if gv is True and (gate == 'always' or not w.pattern[k]) and ic0.get(k) is not False:
                    cell = W.cell_under(w.final[k], w.asm)
                    okx = cell[0] == 'Ok' and cell[2] == E.TRUE and cell[1] != W.policy.conv_atom(k)
                    rep.ob('R10.1', f'{pol}:{k}:applied', okx,
                           f'{k} is replaced by the substitute-latitude time' if okx else
                           f'{k} should be the substitute-latitude time but is {W.show_cell(cell)[:120]}', world=w.describe())
            if scope != 'fajr_isha':
                # all-prayers scope: Shurooq, Asr and Maghrib are taken from the substitute latitude in every outcome
                # (invalid there = invalid here) and Dhuhr is flagged - for every substitute latitude
                for k in ('Shurooq', 'Asr', 'Maghrib'):
                    for cc in W.cell_cases(W.cell_under(w.final[k], w.asm)):
                        kept = cc[0] == 'Ok' and (cc[1] == W.policy.conv_atom(k) or cc[2] != E.TRUE)
                        rep.ob('R10.1', f'{pol}:{k}:applied', not kept,
                               f'{k} is taken from the substitute latitude' if not kept else
                               f'{k} keeps its conventional / unflagged value {W.show_cell(cc)[:100]} although the policy replaces all prayers',
                               world=w.describe())
                for cc in W.cell_cases(W.cell_under(w.final['Dhuhr'], w.asm)):
                    okd = cc[0] == 'Ok' and cc[2] == E.TRUE
                    rep.ob('R10.1', f'{pol}:Dhuhr:flagged', okd, 'Dhuhr is flagged under the all-prayers policy' if okd else
                           f'Dhuhr is {W.show_cell(cc)[:80]} under the all-prayers policy', world=w.describe())
            for k in keys:
                cell = W.cell_under(w.final[k], w.asm)
                if cell[0] != 'Ok' or cell[2] != E.TRUE:
                    continue
                if cell[1] == W.policy.conv_atom(k):
                    continue
                ic = W.interval_conds(w.asm)
                if ic.get(k) is False:
                    continue           # interval-defined from (possibly substituted) Shurooq/Maghrib: R10.3
                g, pay, _ = exp.guard_and_payload(k)
                if pay is not None:
                    pk = (id(cell[1]), id(pay), tuple(sorted((id(cc), vv) for cc, vv in w.asm.items() if isinstance(vv, bool))))
                    if pk not in eq_memo:
                        eq_memo[pk] = D.equiv_cases(cell[1], E.specialise(pay, w.asm)) is True
                ok = pay is not None and eq_memo[pk]
                rep.ob('R10.1', f'{pol}:{k}:same-key-entry', ok,
                       f'{k} is the substitute-latitude {k}' if ok else
                       f'{k} = {show(cell[1], maxd=4)[:120]} is not the substitute-latitude {k}', world=w.describe())
    # where the policy applies, some outcome must actually take the substitute time (the others: substitute time invalid too)
    for pol in sorted(adj_terms):
        gate = table[pol][1]
        pats = {}
        for w in pa.worlds:
            if w.policy != pol or not w.final:
                continue
            key = tuple(sorted(w.pattern.items()))
            for k in ('Fajr', 'Isha'):
                if gate == 'always' or not w.pattern[k]:
                    ic0 = W.interval_conds(w.asm)
                    cell = W.cell_under(w.final[k], w.asm)
                    if ic0.get(k) is False:
                        continue
                    rep_d = any(cc[0] == 'Ok' and cc[2] == E.TRUE and cc[1] != W.policy.conv_atom(k) for cc in W.cell_cases(cell))
                    d = pats.setdefault((key, k), [False, w])
                    d[0] = d[0] or rep_d
        for (key, k), (found, w) in pats.items():
            rep.ob('R10.1', f'{pol}:{k}:reachable-replacement', found,
                   f'{k} can be replaced by the substitute-latitude time' if found else
                   f'{k} is never replaced although the policy applies (conventional validity: ' +
                   ', '.join(f'{a}={"ok" if b else "invalid"}' for a, b in key) + ')')
    rep.floor('nearest-latitude worlds', n_nl, 100)
    # ---- R10.2 portion formulas -----------------------------------------------------------------------------------------
    n_p = 0
    for w in pa.worlds:
        pol = w.policy or ''
        if not w.final or not (pol.startswith('Seventh') or pol == 'AngleBased' or pol.startswith('MinutesFromMaghrib')):
            continue
        if not (w.pattern['Shurooq'] and w.pattern['Maghrib']):
            continue
        scope, gate = table[pol]
        ic = W.interval_conds(w.asm)
        asm = dict(w.asm)
        any_invalid = not all(w.pattern[k] for k in SIX)
        for k in ('Fajr', 'Isha'):
            if pol.startswith('MinutesFromMaghrib') and ic.get(k) is None:
                # the interval value was never consulted on this path: take it as given
                pass
            applies = gate == 'always' or (pol == 'AngleBased' and any_invalid) or (gate == 'invalid' and pol != 'AngleBased' and not w.pattern[k])
            cell = W.cell_under(w.final[k], asm)
            if not applies:
                continue
            n_p += 1
            if ic.get(k) is False and not pol.startswith('MinutesFromMaghrib'):
                continue           # the method's interval definition takes precedence (R10.3)
            exp = expected_portion(ctx, pol, k)
            ok = cell[0] == 'Ok' and D.poly_equal(D.poly(cell[1]), D.poly(exp))
            if pol == 'MinutesFromMaghribFajrIshaAlways' and ic.get(k) is True and cell[0] == 'Ok':
                # interval 0: Fajr = Shurooq (+/- 0)
                ok = D.poly_equal(D.poly(cell[1]), D.poly(W.policy.conv_atom('Shurooq' if k == 'Fajr' else 'Maghrib')))
            rep.ob('R10.2', f'{pol}:{k}:formula', ok,
                   f'{k} = {show(exp, maxd=6)[:90]}' if ok else
                   f'{k} = {W.show_cell(cell)[:160]}; documented: {show(exp, maxd=6)[:120]}', world=w.describe())
            if cell[0] == 'Ok':
                rep.ob('R10.4', f'{pol}:{k}:flagged', cell[2] == E.TRUE, 'replaced value is flagged extreme' if cell[2] == E.TRUE else
                       f'replaced {k} is not flagged extreme', world=w.describe())
    rep.floor('portion-policy applications', n_p, 100)
    # ---- R10.3 interval definition re-applied ----------------------------------------------------------------------------
    n_i = 0
    consumers = {p for p in table if p.startswith('HalfOfNight') or p == 'MinutesFromMaghribFajrIshaInvalid'}
    for w in pa.worlds:
        if not w.final or w.policy is None:
            continue
        ic = W.interval_conds(w.asm)
        fin = {k: W.cell_under(w.final[k], w.asm) for k in SIX}
        for k, base in (('Fajr', 'Shurooq'), ('Isha', 'Maghrib')):
            if ic.get(k) is not False:
                continue
            if w.policy in consumers:
                continue
            n_i += 1
            cell = fin[k]
            if fin[base][0] != 'Ok':
                rep.ob('R10.3', f'{w.policy}:{k}:interval-base-invalid', cell[0] != 'Ok', f'{base} invalid => {k} invalid', world=w.describe())
                continue
            ok = cell[0] == 'Ok' and W.interval_provenance(fin, k, cell[1])
            rep.ob('R10.3', f'{w.policy}:{k}:interval-definition-kept', ok,
                   f'{k} = {base} -/+ intervals[{k}] after the policy' if ok else
                   f'{k} = {W.show_cell(cell)[:140]} does not keep the interval definition', world=w.describe())
    rep.floor('interval re-applications', n_i, 100)
    rep.extra['worlds'] = len(pa.worlds)
