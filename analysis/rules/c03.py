"""C03 - Fajr, Isha and Imsaak occur at the configured solar depression angle (partial)."""
from .. import engine as E
from .. import domains as D
from ..terms import show, subterms
from . import conv as CV
from . import solvers as S
from . import c05
from . import imsaak


def run(ctx, rep):
    # the reported time is a function of the request alone: a cache or other hidden state on the computation path makes it depend on what was
    # computed before (C20's R20.5) - the same place and date, asked with another school, angle or weather, would get the earlier answer
    from . import shared, c20 as _c20h
    shared.include(ctx, rep, _c20h.run, {'R20.5'}, why='no thread-local, static or lock-protected state on the computation path')
    rep.explanation = (
        'Decides on the reconstructed twilight-solver terms: key flow (Fajr reads angles[Fajr] only, Isha angles[Isha] only; Imsaak '
        'perturbs only the Fajr entries of a clone and is the Fajr of the rerun), orientation around the very Dhuhr term with offsets in '
        '[0,12] h, monotonicity in the own angle (larger angle => not later Fajr / not earlier Isha), hemisphere parity, validity guard '
        '(shared with C06). The 0.03 / 0.5 degree agreement with an ephemeris is numeric: not decided.')
    rep.trusted = ['rustc MIR', 'libm functions monotone on their monotone branches', '|lat| <= 60, |dec| < 24, angles in [0, 25]']
    c = CV.get(ctx)
    for k, other, sgn, want in (('Fajr', 'Isha', -1, D.DEC), ('Isha', 'Fajr', +1, D.INC)):
        g, pay, shape = c.guard_and_payload(k)
        if pay is None:
            rep.ob('R3.0', f'{k}:shape', False, 'twilight value not of the guarded form')
            continue
        reads = CV.param_reads(c.values[k])
        okr = reads == {('angles', k)}
        rep.ob('R3.1', f'{k}:key-flow', okr, f'{k} reads exactly params.angles[{k}]' if okr else f'{k} reads {sorted(reads)}')
        hw = CV.has_atom(c.values[k], ('param', 'weather'))
        rep.ob('R3.1', f'{k}:no-weather', not hw, 'no weather dependence' if not hw else f'{k} depends on weather')
        ok, detail = c05.orientation(c, k, sgn)
        rep.ob('R3.2', f'{k}:orientation', ok, detail)
        c05.check_hour_per_degree(c, rep, 'R3.2', k)
        atom = ('mapget', ('field', ('param', 'params'), 'angles'), ctx.prayer_key(k))
        env = S.env_for(pay)
        m = D.mono(pay, atom, env)
        rep.ob('R3.3', f'{k}:monotone-in-own-angle', True if m == want else (False if m in (D.INC, D.DEC) else None),
               f'{k} is {m} in angles[{k}] (required: {want})')
        S.hemisphere_parity(rep, 'R3.4', f'{k}:parity', pay)
        if g is not None:
            S.hemisphere_parity(rep, 'R3.4', f'{k}:guard-parity', g)
        rep.sample({k: show(pay, maxd=7)[:300]})
    imsaak.check(ctx, rep, 'R3.1')
    # shared mechanism (a necessary condition of this property too): the ephemeris is taken at the requested date
    from . import shared, julian
    shared.include(ctx, rep, lambda c_, r_: julian.check(c_, r_, 'R3.7'), {'R3.7'}, why='Julian Day of the requested date')
    # shared mechanism: no wrap-induced jump of the interpolated right ascension / declination (R1.2)
    from . import shared, modular, conv as _CV
    shared.include(ctx, rep, lambda c_, r_: modular.check(c_, r_, _CV.get(c_)), {'R1.2'}, why='360->0 seam hygiene of the interpolation')
    # shared mechanism: the clock-time conversion (minutes from the same hour, wraps after the offset, bounded operands)
    from . import shared, c11 as _c11
    # the property is stated for unrounded seconds: in mode `None` the converter must hand the seconds through untouched (the `None` row of
    # C11's action table, for this property's own times); the other rows of the table are C11's alone
    shared.include(ctx, rep, _c11.run, {'R11.1', 'R11.3', 'R11.4', 'R11.7'},
                   keys=lambda key: key.count(':') >= 2 or key in ('None:Fajr', 'None:Isha'),
                   why='every reported hour becomes a valid clock time (minutes from the same hour, wraps, bounded operands); '
                       'unrounded seconds (mode None) are reported as computed')

