"""C15 - parallel range computation equals the sequential one under every schedule (structural proof).

Schedule-independent argument, clause by clause (DESIGN §4 C15): channel closure, same
computation, exact work list, merge.
"""
from ..context import AnchorLost, last_seg
from .. import engine as E
from ..terms import show, subterms
from . import c14

TRACE = {'sender-new', 'spawn', 'join', 'sender-drop', 'send', 'recv', 'scope', 'chan-new'}


def pl(payload):
    return dict(payload)


def run(ctx, rep):
    # the per-day computation is a function of the request alone (C20's R20.5): thread-local or shared state makes a day's result depend on which worker computed which days before it - on the schedule
    from . import shared as _sh, c20 as _c20h
    _sh.include(ctx, rep, _c20h.run, {'R20.5'}, why='no thread-local, static or lock-protected state on the computation path')
    rep.explanation = (
        'Schedule-independent structural argument checked on MIR: (R15.1) on every path every Sender value is moved into a spawned '
        'worker or dropped before the collector is joined, the collector loop leaves only on recv() = Err, workers send exactly once; '
        '(R15.2) each worker calls the same function as the sequential branch with the shared params/location and its own partition '
        'element and sends exactly that result; (R15.3) the workers are spawned for the unmodified elements of partition(n) with n the '
        'tested parallelism, division guarded; (R15.4) the collector only appends received maps into the map it returns. '
        'Together with C14 (exact cover) the result is the sequential map under every interleaving.')
    rep.trusted = ['rustc MIR', 'std::sync::mpsc: recv() returns Err once all Senders are dropped; unbounded send never blocks',
                   'std::thread::scope joins every spawned thread', 'C14 (partition is an exact cover with disjoint date keys)']
    blk = ctx.pub_fn('prayer_times_dt_rng_block')
    seq = ctx.pub_fn('prayer_times_dt_rng')
    part = ctx.pub_fn('partition', 'DateRange')
    nd = ctx.pub_fn('num_days', 'DateRange')
    eng = ctx.engine()
    eng.trace_kinds = set(TRACE)
    for f in (seq, part, nd):
        eng.opaque.add(f)
    main_appends = []
    eng.hooks['map_append'] = lambda eng_, st_, fr_, t_, a_, b_: main_appends.append((a_, b_))
    args = eng.sym_args(blk, ['params', 'location', 'date_range', 'min_days_for_pll'])
    tree = eng.call_entry(blk, args)
    leaves = list(E.leaves_of(tree))
    rep.floor('outcomes of the range-block API', len(leaves), 2)
    if eng.incomplete:
        rep.ob('engine', 'incomplete', None, str(eng.incomplete[:2]))
    P, L, DR = ('param', 'params'), ('param', 'location'), ('param', 'date_range')
    seq_paths = par_paths = inline_paths = 0
    worker_closures = set()
    collector_closures = set()
    avail_terms = set()
    for st in leaves:
        tr = [(k, pl(p)) for k, p in st.trace]
        kinds = [k for k, _ in tr]
        if 'scope' not in kinds:
            # sequential branch: the result is the sequential API on the same arguments
            seq_paths += 1
            ok = st.ret == ('app', seq, (P, L, DR))
            rep.ob('R15.2', 'sequential-branch', ok, 'returns prayer_times_dt_rng(params, location, date_range)' if ok else
                   f'sequential branch returns {show(st.ret, maxd=4)[:120]}')
            continue
        par_paths += 1
        senders = {}
        consumed = set()
        collector = None
        joined = False
        inline_recv = False
        for i, (k, p) in enumerate(tr):
            if k == 'recv' and collector is None:
                # the scope thread itself drains the channel (no collector thread)
                if not inline_recv:
                    inline_recv = True
                    pending = [s for s in senders if s not in consumed]
                    rep.ob('R15.1', 'senders-closed-before-join', not pending,
                           'every Sender is moved into a worker or dropped before the receive loop starts' if not pending else
                           f'Sender {show(pending[0], maxd=3)[:100]} is still alive while the scope thread receives: recv() never fails, '
                           'the loop blocks forever')
                continue
            if k == 'sender-new' and inline_recv:
                rep.ob('R15.1', 'senders-closed-before-join', False, 'a Sender is created after the receive loop started')
            if k == 'sender-new':
                senders[p['sender']] = i
            elif k == 'spawn':
                clo = p['closure']
                caps = clo[2] if clo[0] == 'closure' else ()
                has_rx = any(c[0] == 'receiver' for c in caps if isinstance(c, tuple) and c)
                for c in caps:
                    if isinstance(c, tuple) and c and c[0] == 'sender':
                        consumed.add(c)
                if has_rx:
                    collector = p['handle']
                    collector_closures.add(clo[1])
                else:
                    worker_closures.add(clo[1])
                    # R15.3: the worker's range is the loop element of partition(n)
                    rng_caps = [c for c in caps if isinstance(c, tuple) and c and c[0] == 'iterval']
                    lasts = [c for c in caps if isinstance(c, tuple) and c and c[0] == 'app' and c[1] == 'vec_last']
                    if not rng_caps and len(lasts) == 1:
                        # the element popped off partition(n); the others are handed out by the loop, whose workers are
                        # checked on the paths that enter it
                        rng_caps = [('iterval', None, ('iter', 'val', lasts[0][2][0]))]
                    okr = len(rng_caps) == 1
                    detail = 'worker captures no partition element'
                    if okr:
                        it = rng_caps[0][2]
                        if it[0] == 'iter' and it[1] == 'val' and it[2][0] == 'app' and it[2][1] == 'vec_init':
                            # partition(n) with its last element popped off: that element must go to a worker of its own
                            whole = it[2][2][0]
                            last = ('app', 'vec_last', (whole,))
                            if any(k2 == 'spawn' and any(y == last for y in subterms(p2['closure'])) for k2, p2 in tr):
                                it = ('iter', 'val', whole)
                        okr = it[0] == 'iter' and it[1] == 'val' and it[2][0] == 'app' and it[2][1] == part and it[2][2][0] == DR
                        detail = f'work list is {show(it, maxd=4)[:140]}'
                        if okr:
                            avail_terms.add(it[2][2][1])
                            decs = set()
                            for c in st.asm:
                                about_days = any(y == ('app', nd, (DR,)) for y in subterms(c))
                                for x in subterms(c):
                                    if x and x[0] == 'bin' and x[1] == 'Div' and any(y == ('app', nd, (DR,)) for y in subterms(x[2])):
                                        decs.add(E.specialise(x[3], st.asm))
                                    elif about_days and x and x[0] == 'bin' and x[1] == 'Mul':
                                        # days < threshold * n : the same decision with the division multiplied out
                                        decs.add(E.specialise(x[2], st.asm))
                                        decs.add(E.specialise(x[3], st.asm))
                            # a decision that mentions no per-thread share at all leaves nothing to compare with
                            oka = (it[2][2][1] in decs) if decs else None
                            rep.ob('R15.3', 'same-parallelism-value', oka,
                                   'partition(n) uses the n tested in the sequential/parallel decision' if oka else
                                   f'partition is sized by {show(it[2][2][1], maxd=4)[:80]} but the decision divides by {[show(d, maxd=4)[:60] for d in decs]}')
                    rep.ob('R15.3', 'work-list', okr, detail + ('' if okr else ' - expected the unmodified elements of date_range.partition(n)'))
                    pc = [eng.purify(st, c) for c in caps]
                    okc = P in pc and L in pc
                    rep.ob('R15.2', 'worker-captures', okc, 'workers capture the shared params and location' if okc else
                           f'worker captures {[show(c, maxd=2)[:40] for c in caps]}')
            elif k == 'sender-drop':
                consumed.add(p['sender'])
            elif k == 'join':
                if collector is not None and p['handle'] == collector:
                    joined = True
                    pending = [s for s in senders if s not in consumed]
                    rep.ob('R15.1', 'senders-closed-before-join', not pending,
                           'every Sender is moved into a worker or dropped before the collector is joined' if not pending else
                           f'Sender {show(pending[0], maxd=3)[:100]} is still alive when the collector is joined: recv() never fails, the join blocks forever')
        if inline_recv and collector is None:
            inline_paths += 1
            collector_checks(rep, [st], main_appends)
            continue
        rep.ob('R15.1', 'collector-joined', joined, 'the collector thread is joined and its value returned' if joined else
               'the collector handle is never joined')
        if joined:
            okr = any(x and x[0] == 'app' and x[1] == 'join' for x in subterms(st.ret))
            rep.ob('R15.4', 'returns-collector-value', okr, 'the result is the collector\'s value' if okr else
                   f'the parallel branch returns {show(st.ret, maxd=4)[:100]}')
    rep.floor('sequential paths', seq_paths, 1)
    rep.floor('parallel paths', par_paths, 1)
    rep.floor('worker closures', len(worker_closures), 1)
    rep.floor('collectors (threads with the receiver, or receive loops of the scope thread)', len(collector_closures) + inline_paths, 1)

    for a in avail_terms:
        lb = c14.lower_bound(a)
        if lb is None:
            lb = lower_bound_parallelism(a)
        rep.ob('R15.3', 'division-guarded', lb is not None and lb >= 1, f'parallelism value >= {lb}')
    rep.floor('parallelism terms', len(avail_terms), 1)
    failure_sites(ctx, rep)

    # ---- workers: same function, own element, one send -----------------------------------------------
    for wc in sorted(worker_closures):
        body = ctx.lib.bodies[wc]
        eng2 = ctx.engine()
        eng2.trace_kinds = set(TRACE)
        eng2.opaque.add(seq)
        env = E.mk_enum('closure-env', 'env', 0, ())
        caps = []
        # captured variables in order: types from the upvar debug info are not exported; use positions
        ctys = closure_capture_types(ctx, wc)
        clo = ('closure', wc, tuple(('sender', 'tx', i) if 'Sender<' in ty else ('param', f'cap{i}') for i, ty in enumerate(ctys)))
        a = [clo] if 'ref' not in body.locals[1] else [E.mk_ref(('S', clo), ())]
        tree2 = eng2.call_entry(wc, a)
        lv = list(E.leaves_of(tree2))
        rep.floor(f'worker outcomes', len(lv), 1)
        for st in lv:
            tr = [(k, pl(p)) for k, p in st.trace]
            sends = [p for k, p in tr if k == 'send']
            ok1 = len(sends) == 1
            rep.ob('R15.2', 'worker-sends-once', ok1, f'{len(sends)} send(s) on a worker path')
            for p in sends:
                v = p['value']
                okv = v[0] == 'app' and v[1] == seq and len(v[2]) == 3
                rep.ob('R15.2', 'worker-same-function', okv,
                       'the value sent is prayer_times_dt_rng(captured params, location, own range)' if okv else
                       f'worker sends {show(v, maxd=3)[:120]}')
                if okv:
                    capsused = [x for x in v[2]]
                    distinct = len(set(capsused)) == 3 and all(x[0] == 'param' and x[1].startswith('cap') for x in capsused)
                    rep.ob('R15.2', 'worker-arguments', distinct, f'arguments are three distinct captures: {[show(x) for x in capsused]}')
    # ---- collector: leaves its loop only on Err, only appends -------------------------------------------
    for cc in sorted(collector_closures):
        body = ctx.lib.bodies[cc]
        eng3 = ctx.engine()
        eng3.trace_kinds = set(TRACE)
        appends = []

        def hook(eng, st, fr, t, a, b):
            appends.append((a, b))
        eng3.hooks['map_append'] = hook
        ctys = closure_capture_types(ctx, cc)
        clo = ('closure', cc, tuple(('receiver', 'rx') if 'Receiver<' in ty else ('param', f'cap{i}') for i, ty in enumerate(ctys)))
        a = [clo] if 'ref' not in body.locals[1] else [E.mk_ref(('S', clo), ())]
        tree3 = eng3.call_entry(cc, a)
        lv = list(E.leaves_of(tree3))
        rep.floor('collector outcomes', len(lv), 1)
        if eng3.incomplete:
            rep.ob('engine', 'incomplete-collector', None, str(eng3.incomplete[:2]))
        collector_checks(rep, lv, appends)
    block_independence(ctx, rep, seq, nd)
    # C14 is the other half of the argument (the work list is an exact cover): its partition and day-count rules are included
    from . import shared
    shared.include(ctx, rep, c14.run, {'R14.1', 'R14.3'}, why='partition(n) covers the range exactly')


def block_independence(ctx, rep, seq, nd, rule='R15.6'):
    """The parallel result is the sequential API run on every block; it is the sequential result for the whole range only if what
    the sequential API stores under a date does not depend on where its range started.  Checked on the sequential API's loop:
    apart from the stored key itself, the stored value mentions no state carried from one iteration to the next."""
    from ..facts import callee_name
    lib = ctx.lib
    eng = ctx.engine()
    eng.opaque.add(nd)
    # the per-day computation stays opaque: only what is fed into it matters here.  Opaque are the single-date API, the functions
    # it is made of (the range API may call those directly) and whatever else the range API calls directly
    dt = ctx.role('dt')
    eng.opaque.add(dt)
    for f_ in (dt, seq):
        for _, t_ in lib.bodies[f_].calls():
            n_ = callee_name(t_)
            b_ = lib.bodies.get(n_)
            if b_ is not None and b_.kind in ('Fn', 'AssocFn') and not b_.derived and n_ != nd and n_ != seq:
                eng.opaque.add(n_)
    inserts = []
    eng.hooks['map_insert'] = lambda eng_, st_, fr_, t_, ptr_, k_, v_: inserts.append((E.intern(eng_.purify(st_, k_)), E.intern(eng_.purify(st_, v_))))
    tree = eng.call_entry(seq, eng.sym_args(seq, ['params', 'location', 'date_range']))
    list(E.leaves_of(tree))
    if eng.incomplete:
        rep.ob('engine', 'incomplete-sequential-api', None, str(eng.incomplete[:2]))
    rep.floor('result insertions in the sequential range API', len(inserts), 1)
    KEY = ('param', '<the stored date>')

    def without_key(t, k):
        if t == k:
            return KEY
        if isinstance(t, tuple):
            return tuple(without_key(x, k) for x in t)
        return t
    for k, v in inserts:
        carried = [x for x in subterms(without_key(v, k)) if x and x[0] == 'loopval']
        rep.ob(rule, 'value-depends-on-its-date-only', not carried,
               'the value stored under a date is computed from that date and the shared arguments' if not carried else
               f'the value stored under {show(k, maxd=3)[:70]} is computed from {show(carried[0], maxd=3)[:90]}, a variable carried from one '
               'iteration of the range loop to the next: the same date gets a different value when a worker\'s block starts elsewhere',
               where=lib.bodies[seq].span)


def collector_checks(rep, lv, appends):
    """the receiving code leaves its loop only on a closed channel and only appends what it received"""
    for st in lv:
        recv_conds = [(c, v) for c, v in st.asm.items() if isinstance(c, tuple) and c and c[0] == 'iterhas' and
                      isinstance(c[2], tuple) and c[2] and c[2][0] == 'recv']
        ret = st.ret
        if not recv_conds and isinstance(ret, tuple) and ret and ret[0] == 'app' and ret[1] == 'fold' and len(ret[2]) == 3 and \
                ret[2][0][:2] == ('iter', 'recv'):
            # `rx.into_iter().fold(init, |acc, m| ..)`: the receiver's iterator ends exactly when recv() fails
            rep.ob('R15.1', 'collector-exits-on-closed-channel', True, 'a fold over the receiver\'s iterator ends only when recv() fails')
            pit, init, body = ret[2]
            elem_ok = True
            x = body
            n = 0
            while isinstance(x, tuple) and x and x[0] == 'app' and x[1] == 'map_append' and n < 10:
                recvd = x[2][1]
                if not (recvd[0] == 'iterval' and recvd[2] == pit):
                    elem_ok = False
                x = x[2][0]
                n += 1
            okm = elem_ok and n >= 1 and x[0] == 'foldacc' and x[2] == init and init == ('map', None, ())
            rep.ob('R15.4', 'collector-only-appends', okm if (okm or body[0] == 'app') else None,
                   'returns the union of the received maps (fold of BTreeMap::append from an empty map)'
                   if okm else f'collector returns {show(ret, maxd=4)[:140]}')
            continue
        timed = [(c, v) for c, v in st.asm.items() if isinstance(c, tuple) and c and c[0] == 'iterhas' and
                 isinstance(c[2], tuple) and c[2] and c[2][0] == 'recv_timed']
        if not recv_conds and timed:
            rep.ob('R15.1', 'collector-exits-on-closed-channel', False,
                   'the collector leaves its loop when a timed or non-blocking receive fails - a timeout or an empty queue, not a closed '
                   'channel: results still on their way are lost')
            continue
        if not recv_conds:
            # no receive seen on this outcome at all: the code that drains the channel was not understood
            rep.ob('R15.1', 'collector-exits-on-closed-channel', None, f'no receive recognised on this outcome: {show(ret, maxd=3)[:100]}')
            continue
        ok = bool(recv_conds) and all(v is False for _, v in recv_conds)
        rep.ob('R15.1', 'collector-exits-on-closed-channel', ok,
               'the collector returns only after recv() failed (all senders gone)' if ok else
               'the collector can return while messages may still arrive: ' + str([(show(c, maxd=2)[:60], v) for c, v in recv_conds]))
        # the returned map: built from appends of received maps only
        okm = True
        x = ret
        n = 0
        while isinstance(x, tuple) and x and x[0] in ('mapsum', 'ite') and n < 10:
            if x[0] == 'ite':
                x = x[2] if x[2][0] == 'mapsum' else x[3]
                continue
            recvd = x[3]
            if not (recvd[0] == 'iterval' and recvd[2][0] == 'recv'):
                okm = False
            x = x[1]
            n += 1
        okm = okm and x == ('map', None, ())
        rep.ob('R15.4', 'collector-only-appends', okm, 'returns the union of the received maps (BTreeMap::append into an empty map)'
               if okm else f'collector returns {show(ret, maxd=4)[:140]}')
    rep.floor('append sites', len(appends), 1)


def closure_capture_types(ctx, clo_path):
    """place types of the operands captured where the closure is created"""
    for p, b in ctx.lib.bodies.items():
        for bi, si, s in b.assigns():
            rv = s['rv']
            if rv['k'] == 'agg' and isinstance(rv['agg'], dict) and rv['agg'].get('closure') == clo_path:
                out = []
                for o in rv['ops']:
                    out.append(o.get('place', {}).get('ty') or o.get('ty', '?'))
                return out
    return []


def lower_bound_parallelism(a):
    """ite(discr(available_parallelism()) == Ok, NonZero::get(..), 1) >= 1"""
    if isinstance(a, tuple) and a and a[0] == 'ite':
        l, r = lower_bound_parallelism(a[2]), lower_bound_parallelism(a[3])
        if l is None or r is None:
            return None
        return min(l, r)
    if isinstance(a, tuple) and a and a[0] == 'app' and a[1].endswith('NonZero::<T>::get'):
        return 1
    if E.is_const(a) and isinstance(E.cval(a), int):
        return E.cval(a)
    return None


THREAD_API = ('std::thread::available_parallelism', 'std::thread::scope', "std::thread::Scope::<'scope, 'env>::spawn",
              "std::thread::ScopedJoinHandle::<'scope, T>::join", 'std::sync::mpsc::Receiver::<T>::recv',
              'std::sync::mpsc::Sender::<T>::send', 'std::sync::mpsc::channel', 'std::sync::mpsc::Receiver::<T>::recv_timeout',
              'std::sync::mpsc::Receiver::<T>::try_recv')
NEEDS_POSITIVE = ('::step_by', '::chunks', '::chunks_exact', '::windows', '::rchunks')


def failure_sites(ctx, rep, rule='R15.5'):
    """Inventory of the failure sites of the range API outside the single-date computation (C07 covers that), each
    discharged or reported.  The range API must work for every range, the empty one included."""
    from . import c07
    from ..facts import callee_name
    lib = ctx.lib
    blk = ctx.pub_fn('prayer_times_dt_rng_block')
    dt = ctx.role('dt')
    nd = ctx.pub_fn('num_days', 'DateRange')
    part = ctx.pub_fn('partition', 'DateRange')
    reach = {p for p in lib.reachable_from(blk) if p in lib.bodies} - set(ctx.reach(dt))
    sites = c07.static_sites(ctx, reach)
    rep.floor('failure sites of the range API', len(sites), 4)
    # arguments of the calls that need a positive argument, as terms over (self, count)
    posargs = {}
    eng = ctx.engine()
    eng.opaque.add(nd)

    def hook(eng_, st, fr, t, name, args):
        if name.endswith(NEEDS_POSITIVE) and len(args) >= 2:
            posargs.setdefault((fr.body.path, fr.block), []).append(eng_.purify(st, args[-1]))
        return None
    eng.hooks['call'] = hook
    eng.call_entry(part, eng.sym_args(part, ['self', 'count']))
    days = ('app', nd, (('param', 'self'),))
    n_arith = 0
    for (p, bi, cls, n) in sites:
        key = f'{last_seg(p)}:{cls}:{last_seg(n)}'
        where = lib.bodies[p].blocks[bi]['term'].get('span')
        if cls.startswith('assert:Overflow') or cls == 'chrono':
            n_arith += 1            # integer / calendar range: numeric, not decided
        elif cls == 'assert:DivisionByZero':
            rep.ob(rule, key, True, 'divisor is the tested parallelism value, at least 1 (R15.3)', where=where)
        elif cls == 'panicky-api' and n in THREAD_API:
            rep.ob(rule, key, True, 'thread / channel primitive: fails only if a thread body fails (every site of the bodies is in this inventory)', where=where)
        elif cls == 'panicky-api' and n.endswith(NEEDS_POSITIVE):
            args = posargs.get((p, bi), [])
            verdicts = []
            for a in args:
                # value of the argument for an empty range (num_days() = 0 is attained: C14 R14.1) and two parts
                from .c17 import _val
                v = _val_ext(a, {days: 0, ('param', 'count'): 2})
                verdicts.append(v)
            if args and all(v is not None and v >= 1 for v in verdicts):
                rep.ob(rule, key, True, 'argument is positive even for an empty range', where=where)
            elif any(v is not None and v < 1 for v in verdicts):
                rep.ob(rule, key, False, f'`{last_seg(n)}` is called with {verdicts[0]:g} for an empty range (end before start): it panics, '
                       'while the sequential API returns an empty map', where=where)
            else:
                rep.ob(rule, key, None, f'argument of `{last_seg(n)}` not evaluable for the empty range', where=where)
        elif cls == 'unwrap':
            b = lib.bodies[p]
            t = b.blocks[bi]['term']
            src = None
            a0 = t['args'][0] if t.get('args') else None
            l0 = (a0.get('place') or {}).get('l') if a0 else None
            for bj, tt in b.calls():
                if tt.get('dest', {}).get('l') == l0:
                    src = callee_name(tt)
            if src in THREAD_API:
                rep.ob(rule, key, True, f'unwraps the result of `{last_seg(src)}`: Err only if the peer thread failed or the channel is closed '
                       '(R15.1: the receiver outlives every Sender)', where=where)
            else:
                rep.ob(rule, key, None, f'unwrap of `{src}` in the range API not discharged', where=where)
        else:
            rep.ob(rule, key, None, f'failure site of class {cls} in the range API not discharged', where=where)
    rep.note(f'{n_arith} integer-overflow / calendar-range checks of the range API are numeric: not decided')


def _val_ext(t, env):
    """numeric value of a term after substituting env; ceil / floor / casts / division understood"""
    import math
    from .common import const_f64
    for k, v in env.items():
        if t is k or t == k:
            return float(v)
    n = const_f64(t)
    if n is not None:
        return n
    if not isinstance(t, tuple) or not t:
        return None
    if t[0] == 'cast':
        v = _val_ext(t[2], env)
        if v is None:
            return None
        return float(math.trunc(v)) if 'FloatToInt' in str(t[3] if len(t) > 3 else '') else v
    if t[0] == 'app' and t[1] in ('ceil', 'floor') and len(t[2]) == 1:
        v = _val_ext(t[2][0], env)
        return None if v is None else float(math.ceil(v) if t[1] == 'ceil' else math.floor(v))
    if t[0] == 'app' and t[1].endswith(('::max', '::min')) and len(t[2]) == 2:
        a, b = _val_ext(t[2][0], env), _val_ext(t[2][1], env)
        if a is None or b is None:
            return None
        return max(a, b) if t[1].endswith('max') else min(a, b)
    if t[0] == 'bin':
        a, b = _val_ext(t[2], env), _val_ext(t[3], env)
        if a is None or b is None:
            return None
        op = t[1]
        if op == 'Add':
            return a + b
        if op == 'Sub':
            return a - b
        if op == 'Mul':
            return a * b
        if op == 'Div' and b != 0:
            return a / b
    if t[0] == 'ite':
        c = _val_ext(t[1], env)
        return None
    return None
