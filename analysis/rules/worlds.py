"""Shared view on the policy-layer worlds (skeleton interpreter results)."""
from .. import policy
from .. import engine as E
from ..context import SIX, AnchorLost
from ..terms import show

_CACHE = {}


def get(ctx, rep=None):
    if 'pa' not in _CACHE:
        _CACHE['pa'] = policy.PolicyAnalysis(ctx).run()
    pa = _CACHE['pa']
    if rep is not None:
        # a std/core function without a model becomes an opaque value: what it does to the cells is not seen
        gaps = sorted(n for n in pa.unmodelled if n.startswith(('std::', 'core::', 'alloc::')) or n.startswith('<') and
                      (' as std::' in n or ' as core::' in n) and 'chrono::' not in n)
        if gaps:
            rep.unreliable = f'library calls without a model in the policy layer: {gaps[:3]}'
            rep.ob('engine', 'unmodelled-library-calls-in-policy-layer', None,
                   f'{len(gaps)} library function(s) without a model were reached: {gaps[:4]} - their effects are not decided')
    return pa


def classify_policies(ctx):
    """scope / gate of every ExtremeLatitudeMethod variant, from the public
    variant names (fails closed on a variant that follows no convention)"""
    out = {}
    for v in ctx.variants('ExtremeLatitudeMethod'):
        if v == 'None':
            out[v] = ('none', 'none')
            continue
        if 'AllPrayers' in v:
            scope = 'all'
        elif 'FajrIsha' in v or v == 'AngleBased':
            scope = 'fajr_isha'
        else:
            raise AnchorLost('policy table', f'variant {v} names no scope')
        if v.endswith('Always'):
            gate = 'always'
        elif v.endswith('Invalid') or v == 'AngleBased':
            gate = 'invalid'
        else:
            raise AnchorLost('policy table', f'variant {v} names no gate')
        out[v] = (scope, gate)
    return out


def interval_conds(asm):
    """{'Fajr': is_zero | None, 'Isha': ...} from the free conditions on params.intervals[K]"""
    out = {}
    for c, v in asm.items():
        if not (isinstance(c, tuple) and c and c[0] == 'bin' and c[1] in ('Eq', 'Ne')):
            continue
        a, b = c[2], c[3]
        if E.is_const(a):
            a, b = b, a
        if not (E.is_const(b) and E.cval(b) == 0.0):
            continue
        if a[0] == 'mapget' and a[1] == ('field', ('param', 'params'), 'intervals') and a[2][0] == 'enum':
            zero = bool(v) if c[1] == 'Eq' else not bool(v)
            out[a[2][2]] = zero
    return out


def interval_cond_terms(pa):
    """the condition terms `params.intervals[K] == 0` as they occur in the worlds: {K: term}"""
    out = {}
    for w in pa.worlds:
        for c, v in w.asm.items():
            if not (isinstance(c, tuple) and c and c[0] == 'bin' and c[1] == 'Eq'):
                continue
            a, b = c[2], c[3]
            if E.is_const(a):
                a, b = b, a
            if E.is_const(b) and E.cval(b) == 0.0 and a[0] == 'mapget' and \
                    a[1] == ('field', ('param', 'params'), 'intervals') and a[2][0] == 'enum':
                out[a[2][2]] = c
    return out


def free_part(asm):
    return {c: v for c, v in asm.items() if not (isinstance(c, tuple) and c and c[0] == 'discr' and
                                                  c[1] == ('field', ('param', 'params'), 'extreme_latitude_method'))}


def compatible(a, b):
    for k, v in a.items():
        if k in b and b[k] != v:
            return False
    return True


def twins(pa, w, policy_name='None', asm=None):
    """worlds of `policy_name` with the same initial pattern whose free conditions are compatible with w's"""
    fa = free_part(asm if asm is not None else w.asm)
    return [x for x in pa.worlds if x.policy == policy_name and x.pattern == w.pattern and compatible(free_part(x.asm), fa)]


def cell_under(c, asm):
    """cell with its value/flag terms simplified under the assumptions `asm`"""
    if c is None or c[0] != 'Ok':
        return c
    return ('Ok', E.specialise(c[1], asm), E.specialise(c[2], asm))


def baseline(pa, w, k, policy_name='None', asm=None):
    """set of cells the twin worlds of `policy_name` end with for key k, seen under w's assumptions"""
    out = []
    asm = asm if asm is not None else w.asm
    for x in twins(pa, w, policy_name, asm):
        if x.final:
            c = cell_under(x.final[k], asm)
            if c not in out:
                out.append(c)
    return out


def initial_cell(w, k):
    if w.pattern[k]:
        return ('Ok', policy.conv_atom(k), E.FALSE)
    return ('Err',)


def show_cell(c):
    if c is None:
        return '?'
    if c[0] == 'Ok':
        return f'Ok(value={show(c[1], maxd=4)[:100]}, extreme={show(c[2])})'
    return c[0]


def interval_provenance(fin, k, val):
    """True when `val` is the interval re-derivation of k from this world's own
    Shurooq (Fajr) / Maghrib (Isha) cell: base -/+ f(params.intervals[k])"""
    base_key, op = {'Fajr': ('Shurooq', 'Sub'), 'Isha': ('Maghrib', 'Add')}.get(k, (None, None))
    if base_key is None:
        return False
    b = fin.get(base_key)
    if not b or b[0] != 'Ok':
        return False
    if not (isinstance(val, tuple) and val and val[0] == 'bin' and val[1] == op and val[2] == b[1]):
        return False
    from ..terms import subterms
    atoms = [t for t in subterms(val[3]) if t and t[0] in ('mapget', 'param', 'field', 'app')]
    want = ('mapget', ('field', ('param', 'params'), 'intervals'))
    for t in atoms:
        if t[0] == 'mapget':
            if t[:2] != want or t[2][2] != k:
                return False
        elif t[0] == 'param' and t[1] != 'params':
            return False
        elif t[0] == 'app':
            return False
    return any(t[0] == 'mapget' for t in atoms)


def cell_cases(cell, max_conds=6):
    """a cell whose value / flag are still joined over conditions, split into its concrete cases"""
    out = []
    for asm, c in cell_cases_asm(cell, max_conds):
        if c not in out:
            out.append(c)
    return out


def cell_cases_asm(cell, max_conds=6, flag_only=False):
    """like cell_cases, each case with the truth assignment of the joining conditions that selects it;
    flag_only: split only over the conditions the flag is joined over"""
    import itertools
    from .. import domains as D
    if cell is None or cell[0] != 'Ok':
        return [({}, cell)]
    conds = [] if flag_only else D.ite_conds(cell[1])
    conds = D.ite_conds(cell[2], conds)
    if not conds or len(conds) > max_conds:
        return [({}, cell)]
    out = []
    for bits in itertools.product([True, False], repeat=len(conds)):
        asm = dict(zip(conds, bits))
        out.append((asm, ('Ok', E.specialise(cell[1], asm), E.specialise(cell[2], asm))))
    return out
