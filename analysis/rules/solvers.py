"""Shared pieces for the solver properties C02-C04: atoms, environments, parity / monotone obligations."""
import math
from .. import domains as D
from ..terms import show, subterms
from . import conv as CV

LAT = ('field', ('field', ('field', ('param', 'tad'), 'coords'), 'latitude'), '0')


def dec_atoms(t):
    """declination atoms tad.astros[i].dec occurring in t"""
    out = set()
    for x in subterms(t):
        if x and x[0] == 'field' and x[2] == 'dec' and isinstance(x[1], tuple) and x[1] and x[1][0] == 'elem':
            out.add(x)
    return out


def lat_atoms(t):
    out = set()
    for x in subterms(t):
        if x and x[0] == 'field' and x[2] == 'latitude' and not (isinstance(x[1], tuple) and x[1] and x[1][0] == 'as'):
            out.add(('field', x, '0'))
    return {a for a in out if any(y == a for y in subterms(t))}


def env_for(t, lat_max=60.0):
    env = {}
    for a in lat_atoms(t):
        env[a] = (-lat_max, lat_max)
    for a in dec_atoms(t):
        env[a] = (-23.9, 23.9)
    for x in subterms(t):
        if x and x[0] == 'mapget' and x[1] == ('field', ('param', 'params'), 'angles'):
            env[x] = (0.0, 25.0)
    return env


def hemisphere_parity(rep, rule, key, t):
    odd = lat_atoms(t) | dec_atoms(t)
    if not odd:
        rep.ob(rule, key, None, 'no latitude / declination atom found')
        return
    par = D.parity(t, odd)
    if par == D.EVEN:
        rep.ob(rule, key, True, 'even under the hemisphere mirror (lat, dec) -> (-lat, -dec)')
    elif par in (D.ASYM, D.ODD):
        rep.ob(rule, key, False, f'{par} under the hemisphere mirror (lat, dec) -> (-lat, -dec): a sign is right in one hemisphere only')
    else:
        rep.ob(rule, key, None, 'parity not decided')
