"""C09 - nearest-good-day fallback finds the closest date with valid twilight (partial)."""
from ..context import SIX, last_seg, AnchorLost
from .. import engine as E
from .. import domains as D
from ..terms import show, subterms
from .common import const_f64
from . import conv as CV
from . import worlds as W

P = ('param', 'params')
MIN_RADIUS = 78


def run(ctx, rep):
    rep.explanation = (
        'Decides on the search loop of the nearest-good-day policies: search radius (interval of the loop bound: at |lat| <= 64 and '
        'angles <= 20 deg the twilight-free season lies within +/-78 days of the solstice, so a smaller radius misses dates inside the '
        'quantifier), distance starts at 0, the earlier date is probed before the later one at every distance and a hit ends the search, '
        'a candidate is accepted iff its own Fajr and Isha are valid and it is computed with the same parameters, coordinates and '
        'weather, day stepping moves date and Julian Day together, and the values written are the candidate\'s same-key entries. '
        'Equality "to the second" is numeric: not decided.')
    rep.trusted = ['rustc MIR', 'chrono ordinal() in [1,366], leap_year()', 'RangeInclusive iterates lo, lo+1, ..., hi']
    pa = W.get(ctx, rep)
    eph_ctors = set(ctx.role('eph_ctors'))
    pols = [p for p in W.classify_policies(ctx) if p.startswith('NearestGoodDay')]
    rep.floor('nearest-good-day policies', len(pols), 2)
    # ---- R9.1 search radius / start -------------------------------------------------------------------------------
    ranges = set()
    for w in pa.worlds:
        if w.policy not in pols:
            continue
        for c in w.asm:
            if isinstance(c, tuple) and c and c[0] == 'iterhas' and isinstance(c[2], tuple) and c[2]:
                it = c[2]
                if it[0] == 'rangeincl':
                    ranges.add((it[1], it[2], True))
                elif it[0] == 'enum' and it[2] == 'Range':
                    ranges.add((it[4][0], it[4][1], False))
    rep.floor('search loops', len(ranges), 1)
    for lo, hi, incl in ranges:
        rep.ob('R9.2', 'starts-at-distance-0', const_f64(lo) == 0.0, f'search distance starts at {show(lo)}')
        rlo, rhi = D.rng(hi)
        if not incl:
            rlo, rhi = rlo - 1, rhi - 1
        if (rlo, rhi) == D.TOP or rlo == -D.INF:
            # not bounded as a whole: a single case of the bound that is provably too small is still a violation
            def cases(t):
                if isinstance(t, tuple) and t and t[0] == 'ite':
                    yield from cases(t[2])
                    yield from cases(t[3])
                elif isinstance(t, tuple) and t and t[0] in ('app', 'cast') and any(isinstance(a, tuple) and a and a[0] == 'ite'
                                                                                  for a in (t[2] if t[0] == 'app' else (t[2],))):
                    if t[0] == 'cast':
                        for b in cases(t[2]):
                            yield ('cast', t[1], b) + tuple(t[3:])
                    else:
                        args = list(t[2])
                        i_ = next(i for i, a in enumerate(args) if isinstance(a, tuple) and a and a[0] == 'ite')
                        for b in cases(args[i_]):
                            yield from cases(('app', t[1], tuple(args[:i_] + [b] + args[i_ + 1:])))
                else:
                    yield t
            small = None
            for leaf in cases(hi):
                l0, l1 = D.rng(leaf)
                if not incl:
                    l0, l1 = l0 - 1, l1 - 1
                if l1 < MIN_RADIUS:
                    small = (leaf, l1)
            if small is not None:
                rep.ob('R9.1', 'search-radius', False,
                       f'in one case the search radius is at most {small[1]:g} days ({show(small[0], maxd=4)[:100]}): '
                       f'good days further away are never reached (needs >= {MIN_RADIUS})')
            else:
                rep.ob('R9.1', 'search-radius', None, f'bound {show(hi, maxd=4)[:80]} not bounded from below')
        else:
            rep.ob('R9.1', 'search-radius', rlo >= MIN_RADIUS,
                   f'search radius is at least {rlo:.0f} days' if rlo >= MIN_RADIUS else
                   f'search radius {show(hi, maxd=4)[:80]} can be as small as {rlo:.0f} day(s): a requested date whose nearest good day is '
                   f'farther away (e.g. early January in the southern summer) gets no fallback although one exists within {MIN_RADIUS} days')
    # ---- R9.2 probe order, R9.3 candidate computation (trace of ephemeris constructions) -------------------------------
    pl = ctx.role('policy_layer')
    n_paths = 0
    n_probes = 0
    cand_terms = set()
    for pol in pols:
        for pattern in ({'Fajr': False, 'Shurooq': True, 'Dhuhr': True, 'Asr': True, 'Maghrib': True, 'Isha': False},):
            panalysis = W.policy.PolicyAnalysis(ctx, patterns=[pattern])
            eng = ctx.engine(opaque_roles=('normalisers', 'eph_ctors'))
            eng.trace_kinds = {'call'}
            eng.use_cache = False
            eng.interest |= eph_ctors
            args = panalysis.make_args(eng, pattern)
            disc = None
            a = ctx.lib.adts[panalysis.elm_adt]
            for v in a['variants']:
                if v['name'] == pol:
                    disc = int(v['discr'])
            tree = eng.call_entry(panalysis.entry, args, asm={('discr', ('field', P, 'extreme_latitude_method')): disc})
            for st in E.leaves_of(tree):
                n_paths += 1
                # a candidate chosen by a condition (`if c { jd.sub(i) } else { jd.add(i) }`) is judged once per case of the condition
                jds = []
                for k, p in st.trace:
                    if k == 'call':
                        d = dict(p)
                        jds += [x for x in d['args'] if isinstance(x, tuple) and x and x[0] == 'enum' and last_seg(x[1]) != 'Coordinates'][:1]
                cconds = []
                for j in jds:
                    D.ite_conds(j, cconds)
                cases = [{}]
                if 0 < len(cconds) <= 4:
                    import itertools as _it
                    cases = [dict(zip(cconds, bits)) for bits in _it.product([True, False], repeat=len(cconds))]
                for case in cases:
                    dirs = []
                    for k, p in st.trace:
                        if k != 'call':
                            continue
                        d = dict(p)
                        jd = [x for x in d['args'] if isinstance(x, tuple) and x and x[0] == 'enum' and last_seg(x[1]) != 'Coordinates']
                        co = [x for x in d['args'] if not (isinstance(x, tuple) and x and x[0] == 'enum' and last_seg(x[1]) != 'Coordinates')]
                        if not jd:
                            dirs.append(('?', None))
                            continue
                        j = E.specialise(jd[0], case) if case else jd[0]
                        # direction: the f64 field decreases / increases; the date moves with Sub / Add
                        fl = [x for x in j[4] if isinstance(x, tuple) and x and x[0] == 'bin' and x[1] in ('Sub', 'Add')]
                        dt = [x for x in j[4] if isinstance(x, tuple) and x and x[0] == 'app' and ('Sub<chrono::Days>' in x[1] or 'Add<chrono::Days>' in x[1])]
                        if not fl or not dt:
                            dirs.append(('?', None))
                            continue
                        dist = [y for y in subterms(fl[0][3]) if y and y[0] == 'iterval']
                        dirs.append(('B' if fl[0][1] == 'Sub' else 'F', dist[0] if dist else fl[0][3]))
                        okc = all(eng.purify(st, c) == ('field', ('param', 'tad'), 'coords') for c in co)
                        rep.ob('R9.3', f'{pol}:candidate-coordinates', okc, 'candidates are computed at the request\'s coordinates' if okc else
                               f'candidate coordinates: {[show(eng.purify(st, c), maxd=3)[:60] for c in co]}')
                        same_dir = ('Sub<' in dt[0][1]) == (fl[0][1] == 'Sub')
                        rep.ob('R9.4', f'{pol}:date-and-julian-day-move-together', same_dir,
                               'date and Julian Day value are stepped in the same direction' if same_dir else
                               f'date moves by {dt[0][1][-30:]} but the Julian Day value by {fl[0][1]}')
                    # pattern: every forward probe is immediately preceded by the backward probe of the same distance
                    ok = True
                    for i, (d, dist) in enumerate(dirs):
                        if d == 'F' and not (i > 0 and dirs[i - 1][0] == 'B' and dirs[i - 1][1] == dist):
                            ok = False
                        if d == '?':
                            ok = None
                    n_probes += sum(1 for d, _ in dirs if d in 'BF')
                    reached_loop = any(x and x[0] == 'iterhas' for c_ in st.asm for x in subterms(c_))
                    if not dirs and not reached_loop:
                        # Fajr and Isha are both missing in this run, so the policy applies: an outcome without a single probe is a search
                        # that was not attempted (a shortcut on the latitude, on the method, ...)
                        rep.ob('R9.2', f'{pol}:search-attempted', False,
                               'an outcome of the policy with Fajr and Isha missing returns before the search loop is reached' +
                               (f' when {[(show(c_, maxd=3)[:60], v_) for c_, v_ in list(st.asm.items())[-2:]]}' if st.asm else '') +
                               ': the missing times stay missing although a good day may be near')
                    if dirs:
                        rep.ob('R9.2', f'{pol}:earlier-date-first', ok,
                               'at every distance the earlier date is probed before the later one' if ok else
                               f'probe order on a path: {"".join(d for d, _ in dirs)}' +
                               (f' when {[(show(c_, maxd=3)[:60], v_) for c_, v_ in case.items()][:2]}' if case else '') +
                               ' (the earlier date must be probed first: ties go to the earlier date)')
    rep.floor('search paths', n_paths, 4)
    rep.floor('classified probes (earlier / later date)', n_probes, 4)
    # ---- R9.3 / R9.5 on the worlds: accepted candidates have valid Fajr and Isha; writes are the candidate's same-key entries ------
    n_w = 0
    exp_cache = {}
    import itertools

    class V:            # a world seen under one assignment of the conditions its joined values still depend on
        pass
    views = []
    for w0 in pa.worlds:
        if w0.policy not in pols or not w0.final:
            continue
        fin0 = {k: W.cell_under(w0.final[k], w0.asm) for k in SIX}
        conds = []
        for k in SIX:
            if fin0[k][0] == 'Ok':
                D.ite_conds(fin0[k][1], conds)
                D.ite_conds(fin0[k][2], conds)
        conds = [c for c in conds if c not in w0.asm and any(x and x[0] == 'app' and x[1] in eph_ctors for x in subterms(c))]
        if len(conds) > 8:
            rep.ob('R9.5', f'{w0.policy}:too-many-joined-conditions', None, f'{len(conds)} conditions', world=w0.describe())
            continue
        for bits in itertools.product([True, False], repeat=len(conds)):
            v = V()
            v.policy, v.pattern, v.final = w0.policy, w0.pattern, w0.final
            v.asm = dict(w0.asm)
            v.asm.update(dict(zip(conds, bits)))
            v.describe = (lambda w0=w0, bits=bits, conds=conds: w0.describe() + ' | ' +
                          ' '.join(f'{show(c, maxd=2)[:40]}={b}' for c, b in zip(conds, bits)))
            views.append(v)
    for w in views:
        fin = {k: W.cell_under(w.final[k], w.asm) for k in SIX}
        cands = set()
        for k in SIX:
            if fin[k][0] == 'Ok':
                for x in subterms(fin[k][1]):
                    if x and x[0] == 'app' and x[1] in eph_ctors:
                        cands.add(x)
        if not cands:
            continue
        n_w += 1
        if len(cands) != 1:
            rep.ob('R9.5', f'{w.policy}:one-candidate', False, f'values of {len(cands)} different candidate days are mixed', world=w.describe())
            continue
        cand = next(iter(cands))
        if cand not in exp_cache:
            exp_cache[cand] = CV.Conv(ctx, tad_term=cand)
        exp = exp_cache[cand]
        # acceptance: a day is accepted only if its own Fajr and Isha are valid - so after a hit both are reported
        for k in ('Fajr', 'Isha'):
            if W.interval_conds(w.asm).get(k) is False:
                continue        # interval-defined from Shurooq/Maghrib (whose own validity decides)
            okk = fin[k][0] == 'Ok'
            rep.ob('R9.3', f'{w.policy}:accepted-candidate-has-{k}', okk,
                   f'after a hit {k} is reported' if okk else
                   f'a day was accepted as "good" but {k} is still missing: the candidate test does not require a valid {k}',
                   world=w.describe())
        allp = 'AllPrayers' in w.policy
        for k in SIX:
            cell = fin[k]
            replaced = cell[0] == 'Ok' and any(x == cand for x in subterms(cell[1]))
            if not replaced:
                continue
            ic = W.interval_conds(w.asm)
            if ic.get(k) is False:
                continue
            g, pay, _ = exp.guard_and_payload(k)
            ok = pay is not None and D.equiv_cases(cell[1], E.specialise(pay, w.asm)) is True
            rep.ob('R9.5', f'{w.policy}:{k}:same-key-entry', ok, f'{k} is the candidate day\'s {k}' if ok else
                   f'{k} = {show(cell[1], maxd=3)[:100]} is not the candidate day\'s {k}', world=w.describe())
            rep.ob('R9.5', f'{w.policy}:{k}:flagged', cell[2] == E.TRUE, 'flagged extreme' if cell[2] == E.TRUE else f'{k} replaced but not flagged')
            if not allp:
                rep.ob('R9.5', f'{w.policy}:{k}:only-invalid-replaced', not w.pattern[k] and k in ('Fajr', 'Isha'),
                       'only an invalid Fajr/Isha is replaced' if (not w.pattern[k] and k in ('Fajr', 'Isha')) else
                       f'{k} replaced although it was valid / out of scope', world=w.describe())
        if allp:
            miss = [k for k in SIX if fin[k][0] == 'Ok' and not any(x == cand for x in subterms(fin[k][1])) and
                    W.interval_conds(w.asm).get(k) is not False]
            rep.ob('R9.5', f'{w.policy}:all-six-from-candidate', not miss, 'all six times come from the candidate day' if not miss else
                   f'{miss} do not come from the candidate day', world=w.describe())
        else:
            for k in ('Fajr', 'Isha'):
                if not w.pattern[k] and W.interval_conds(w.asm).get(k) is not False:
                    okr = fin[k][0] == 'Ok' and any(x == cand for x in subterms(fin[k][1]))
                    rep.ob('R9.5', f'{w.policy}:{k}:invalid-is-replaced', okr, f'the missing {k} is taken from the good day' if okr else
                           f'{k} is missing and a good day was found, but {k} = {W.show_cell(fin[k])[:80]}', world=w.describe())
    # where Fajr / Isha is missing (or the policy is an Always one) some outcome must take it from a good day
    table = W.classify_policies(ctx)
    pats = {}
    from .common import ite_leaves
    for w in pa.worlds:
        if w.policy not in pols or not w.final:
            continue
        gate = table[w.policy][1]
        key = tuple(sorted(w.pattern.items()))
        for k in ('Fajr', 'Isha'):
            if not (gate == 'always' or not w.pattern[k]):
                continue
            if W.interval_conds(w.asm).get(k) is False:
                continue
            cell = W.cell_under(w.final[k], w.asm)
            got = False
            if cell[0] == 'Ok':
                for conds, leaf in ite_leaves(cell[1]):
                    if any(x and x[0] == 'app' and x[1] in eph_ctors for x in subterms(leaf)):
                        got = True
                flags = [l for _, l in ite_leaves(cell[2])]
                got = got and any(f == E.TRUE for f in flags)
            d = pats.setdefault((w.policy, key, k), [False])
            d[0] = d[0] or got
    for (pol, key, k), (found,) in sorted(pats.items(), key=str):
        rep.ob('R9.5', f'{pol}:{k}:reachable-replacement', found,
               f'a missing {k} can be taken from the nearest good day' if found else
               f'{k} is never taken from a good day although the policy applies (conventional validity: ' +
               ', '.join(f'{a}={"ok" if b else "invalid"}' for a, b in key) + ')')
    rep.floor('worlds with an accepted candidate', n_w, 20)
    # the search walks the Julian Day by +/- i while the candidate's times are labelled by calendar dates: "i days away" means the
    # same on both sides only if consecutive dates are one Julian Day apart - the Meeus formula with one shifted year (R9.6)
    from . import shared, julian as _julian
    shared.include(ctx, rep, lambda c_, r_: _julian.check(c_, r_, 'R9.6'), {'R9.6'}, why='the day offsets of the search are Julian-Day differences')
