"""C12 - each parameter affects only the times it is documented to affect (non-interference + pairing rules)."""
from ..context import SIX, PRAYERS, last_seg
from .. import engine as E
from .. import domains as D
from ..terms import show, subterms
from .common import const_f64
from . import conv as CV
from . import worlds as W
from . import imsaak
from . import c07

P = ('param', 'params')


def run(ctx, rep):
    rep.explanation = (
        'Dependence (non-interference) matrix parameters x times computed on the reconstructed terms in the worlds without policy '
        'dispatch, plus pairing rules: the offset looked up is that of the converted key, Isha = Maghrib + intervals[Isha]/60 and Fajr = '
        'Shurooq - intervals[Fajr]/60, the Imsaak branches (interval / minute / angle / extreme rerun), absent weather = default weather. '
        'Absence of an atom in an over-approximating dependence set proves non-interference. "By exactly that many minutes" beyond the '
        '/60 factor is numeric: not decided.')
    rep.trusted = ['rustc MIR', 'worlds without dispatch: policy None (dispatch couples Fajr/Isha by documented design: C08/C09)']
    c = CV.get(ctx)
    # ---- conventional matrix ------------------------------------------------------------------------------
    allowed = {'Fajr': {('angles', 'Fajr')}, 'Isha': {('angles', 'Isha')}, 'Asr': {('asr_shadow_ratio',)},
               'Dhuhr': set(), 'Shurooq': set(), 'Maghrib': set()}
    weather_ok = {'Shurooq', 'Maghrib'}
    n = 0
    for k in SIX:
        v = c.values.get(k)
        if v is None:
            rep.ob('R12.1', f'{k}:present', False, 'missing conventional entry')
            continue
        reads = CV.param_reads(v)
        extra = reads - allowed[k]
        n += 1
        rep.ob('R12.1', f'conventional:{k}:parameters', not extra,
               f'{k} depends only on {sorted(allowed[k]) or "no parameter"}' if not extra else
               f'{k} also depends on {sorted(extra)}')
        hw = CV.has_atom(v, ('param', 'weather'))
        if k not in weather_ok:
            rep.ob('R12.1', f'conventional:{k}:weather', not hw, 'independent of weather' if not hw else f'{k} depends on weather')
    rep.floor('conventional matrix rows', n, 6)
    # ---- policy None worlds: intervals ------------------------------------------------------------------------
    pa = W.get(ctx, rep)
    nn = 0
    for w in pa.worlds:
        if w.policy != 'None' or not w.final:
            continue
        nn += 1
        ic = W.interval_conds(w.asm)
        fin = {k: W.cell_under(w.final[k], w.asm) for k in SIX}
        for k, base, op in (('Fajr', 'Shurooq', 'Sub'), ('Isha', 'Maghrib', 'Add')):
            cell = fin[k]
            if ic.get(k) is False:
                # interval-defined: base -/+ intervals[k] / 60
                if fin[base][0] != 'Ok':
                    rep.ob('R12.2', f'{k}:interval-invalid-base', cell[0] != 'Ok', f'{base} invalid => {k} invalid', world=w.describe())
                    continue
                want = D.poly(('bin', op, W.policy.conv_atom(base),
                               ('bin', 'Div', ('mapget', ('field', P, 'intervals'), ctx.prayer_key(k)), E.C('f64', 60.0))))
                ok = cell[0] == 'Ok' and D.poly_equal(D.poly(cell[1]), want)
                rep.ob('R12.2', f'{k}:interval-definition', ok,
                       f'{k} = {base} {"-" if op == "Sub" else "+"} intervals[{k}]/60' if ok else
                       f'{k} = {W.show_cell(cell)} (documented: {base} {"-" if op == "Sub" else "+"} intervals[{k}] minutes)', world=w.describe())
            elif ic.get(k) is None and fin[base][0] == 'Ok':
                # this outcome was produced without ever testing intervals[k]
                mention = cell[0] == 'Ok' and any(x and x[0] == 'mapget' and x[1] == ('field', P, 'intervals') for x in subterms(cell[1]))
                rep.ob('R12.2', f'{k}:interval-consulted', None if mention else False,
                       f'{k} = {W.show_cell(cell)}: intervals[{k}] is used without being tested - not decided' if mention else
                       f'under policy None {k} = {W.show_cell(cell)} is returned on a path that never looks at intervals[{k}]: for an interval '
                       f'method {k} stays at its angle-0 conventional value instead of {base} {"-" if op == "Sub" else "+"} the interval',
                       world=w.describe())
            elif ic.get(k) is True:
                ok = cell == W.initial_cell(w, k)
                rep.ob('R12.2', f'{k}:no-interval', ok, f'{k} is the conventional time when its interval is 0' if ok else
                       f'{k} = {W.show_cell(cell)} although intervals[{k}] = 0', world=w.describe())
        # other cells untouched by the intervals
        for k in ('Shurooq', 'Dhuhr', 'Asr', 'Maghrib'):
            ok = fin[k] == W.initial_cell(w, k)
            rep.ob('R12.1', f'None:{k}:untouched', ok, 'equals the conventional value' if ok else
                   f'{k} changed under policy None: {W.show_cell(fin[k])}', world=w.describe())
    rep.floor('policy-None worlds', nn, 16)
    n_int = sum(1 for (r_, k_, st_, d_) in rep.obls if r_ == 'R12.2' and k_.endswith(':interval-definition'))
    n_noint = sum(1 for (r_, k_, st_, d_) in rep.obls if r_ == 'R12.2' and k_.endswith(':no-interval'))
    rep.floor('interval definitions checked under policy None', n_int, 16)
    rep.floor('zero-interval cases checked under policy None', n_noint, 16)
    # ---- offsets: converter key = map key; Imsaak under Fajr ------------------------------------------------------
    conv = ctx.role('time_converter')
    eng2, tree2 = c07.dt_level(ctx, interest={conv})
    body = ctx.lib.bodies[conv]
    nk = 0
    for e in eng2.log:
        if e['kind'] != 'call' or e['callee'] != conv or e['stack'][-1][0] == imsaak.find_builder(ctx):
            continue
        args = e['args']
        key = [a for a in args if isinstance(a, tuple) and a and a[0] == 'enum' and last_seg(a[1]) == 'Prayer']
        src = [x for a in args for x in subterms(a) if x and x[0] == 'app' and x[1] == 'policy-layer-result']
        if not key:
            continue
        in_imsaak = any(fn == imsaak.find_builder(ctx) for fn, _ in e['stack'])
        if in_imsaak:
            continue
        nk += 1
        ok = bool(src) and all(x[2][0] == key[0] for x in src)
        rep.ob('R12.3', f'offset-key:{key[0][2]}', ok, f'the entry of {key[0][2]} is converted (and offset) under its own key' if ok else
               f'entry {[x[2][0][2] for x in src]} is converted under key {key[0][2]}')
    rep.floor('converted entries', nk, 6)
    # ---- Imsaak branches ----------------------------------------------------------------------------------------------
    imsaak.check(ctx, rep, 'R12.4', entry=False)
    # ---- absent weather = default -------------------------------------------------------------------------------------
    hb = ctx.role('hours_builder')
    eng3 = ctx.engine(opaque_roles=('normalisers', 'eph_ctors'))
    eng3.opaque.add(hb)
    eng3.opaque.add(ctx.role('policy_layer'))
    seen = []

    def hook(eng, st, fr, t, name, args):
        if name == hb:
            seen.append(tuple(eng.purify(st, a) for a in args))
        return None
    eng3.hooks['call'] = hook
    dt = ctx.role('dt')
    eng3.call_entry(dt, eng3.sym_args(dt))
    rep.floor('hours-builder calls from prayer_times_dt', len(seen), 1)
    wdef = None
    for p, b in ctx.lib.bodies.items():
        if (b.impl_of or {}).get('self_ty', '').endswith('::Weather') and (b.impl_of.get('trait') or '').endswith('default::Default'):
            wdef = p
    for a in seen:
        w = [x for x in a if isinstance(x, tuple) and x and (x[0] == 'ite' or (x[0] == 'enum' and last_seg(x[1]) == 'Weather'))]
        ok = False
        detail = f'weather argument {show(a[-1], maxd=4)[:160]}'
        for x in w:
            if x[0] == 'ite':
                # Some(w) => w ; None => Weather::default()
                leaves = [x[2], x[3]]
                some = [l for l in leaves if any(y == ('param', 'weather') for y in subterms(l))]
                dflt = [l for l in leaves if l[0] == 'enum' and last_seg(l[1]) == 'Weather' and
                        not any(y == ('param', 'weather') for y in subterms(l))]
                ok = len(some) == 1 and len(dflt) == 1 and some[0] == ('field', ('as', ('param', 'weather'), 'Some'), '0')
                if ok:
                    vals = [const_f64(y) for y in subterms(dflt[0]) if const_f64(y) is not None]
                    detail = f'Some(w) => w, None => Weather::default() = {vals}'
        rep.ob('R12.5', 'absent-weather-is-default', ok, detail)
    # shared mechanism: the clock-time conversion wraps into [0, 24) after the offset and cannot fail (R11.4, R11.7)
    from . import shared, c11 as _c11
    shared.include(ctx, rep, _c11.run, {'R11.3', 'R11.4', 'R11.7'}, why='every reported hour becomes a valid clock time (minutes from the same hour, wraps, bounded operands)')
    # the policy layer's scope and invalid-gate rules are necessary here too: a policy that replaces a *valid* time, or a
    # time outside its scope, makes that time depend on parameters (the other prayer's angle, the nearest latitude) it
    # is documented not to depend on
    from . import c08 as _c08
    shared.include(ctx, rep, _c08.run, {'R8.1', 'R8.2'}, why='policies change only what they name')
    # the portion policies read the angle of the prayer they replace (own-key rule of the formulas)
    from . import c10 as _c10
    shared.include(ctx, rep, _c10.run, {'R10.2'}, why='a replaced Fajr/Isha depends on its own angle only')

