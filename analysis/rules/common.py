"""Helpers shared by the rule modules."""
from .. import engine as E
from ..engine import is_const, cval, TRUE, FALSE


def ite_leaves(t, conds=()):
    """(path conditions, leaf) for every leaf of an ite tree"""
    if isinstance(t, tuple) and t and t[0] == 'ite':
        yield from ite_leaves(t[2], conds + ((t[1], True),))
        yield from ite_leaves(t[3], conds + ((t[1], False),))
    else:
        yield conds, t


def const_f64(t):
    if is_const(t) and isinstance(cval(t), (int, float)) and not isinstance(cval(t), bool):
        return float(cval(t))
    return None


def conjuncts(c):
    """atoms of a conjunction (`a && b` is ite(a, b, false) after joining, or BitAnd)"""
    if isinstance(c, tuple) and c:
        if c[0] == 'ite' and c[3] == FALSE:
            return conjuncts(c[1]) + conjuncts(c[2])
        if c[0] == 'bin' and c[1] == 'BitAnd':
            return conjuncts(c[2]) + conjuncts(c[3])
    return [c]


def interval_test(c, x):
    """If boolean term `c` is a two-sided range test on exactly the term `x`,
    return (lo, hi, closed_lo, closed_hi); else None."""
    if not isinstance(c, tuple) or not c:
        return None
    if c[0] == 'app' and c[1] == 'contains' and len(c[2]) == 2 and c[2][1] == x:
        r = c[2][0]
        if r[0] == 'rangeincl':
            return (r[1], r[2], True, True)
        return (('range_start', r), ('range_end', r), True, True)
    if c[0] == 'app' and c[1].endswith('Range::<Idx>::contains') and len(c[2]) == 2 and c[2][1] == x:
        r = c[2][0]
        if r[0] == 'enum' and r[2] == 'Range' and len(r[4]) == 2:
            return (r[4][0], r[4][1], True, False)
        return None
    lo = hi = None
    clo = chi = None
    CMP = {'cmp_lt': 'Lt', 'cmp_le': 'Le', 'cmp_gt': 'Gt', 'cmp_ge': 'Ge'}
    for a in conjuncts(c):
        if isinstance(a, tuple) and a and a[0] == 'app' and a[1] in CMP and len(a[2]) == 2:
            a = ('bin', CMP[a[1]], a[2][0], a[2][1])
        if not (isinstance(a, tuple) and a and a[0] == 'bin' and a[1] in ('Le', 'Lt', 'Ge', 'Gt')):
            return None
        op, l, r = a[1], a[2], a[3]
        if r == x and l != x:
            # l op x  ->  x op' l
            op = {'Le': 'Ge', 'Lt': 'Gt', 'Ge': 'Le', 'Gt': 'Lt'}[op]
            l, r = r, l
        if l != x:
            # |x| <= k
            if l == ('app', 'abs', (x,)) and op in ('Le', 'Lt') and const_f64(r) is not None:
                k = const_f64(r)
                return (E.C('f64', -k), E.C('f64', k), op == 'Le', op == 'Le')
            return None
        if op in ('Ge', 'Gt'):
            if lo is not None:
                return None
            lo, clo = r, op == 'Ge'
        else:
            if hi is not None:
                return None
            hi, chi = r, op == 'Le'
    if lo is None or hi is None:
        return None
    return (lo, hi, clo, chi)


def panic_events(eng):
    return [e for e in eng.log if e['kind'] == 'panic']


def fmt_asm(asm, show):
    out = []
    for k, v in asm.items():
        out.append(f'{show(k)[:120]}={v}')
    return out
