"""C05 - the daily schedule is complete and chronologically ordered (partial)."""
import math
from ..context import SIX, PRAYERS
from .. import engine as E
from .. import domains as D
from ..terms import show, subterms
from . import conv as CV
from . import worlds as W


def orientation(c, k, sign):
    """value(k) = D -/+ T with T in [0, 12] and D the very Dhuhr term"""
    g, pay, shape = c.guard_and_payload(k)
    gd, dh, _ = c.guard_and_payload('Dhuhr')
    if pay is None or dh is None:
        return None, 'value shape unknown'
    op = 'Sub' if sign < 0 else 'Add'
    if not (pay[0] == 'bin' and pay[1] in ('Add', 'Sub')):
        return None, f'not a sum/difference: {show(pay, maxd=3)[:100]}'
    a, b = pay[2], pay[3]
    if pay[1] == 'Add' and b == dh and a != dh:
        a, b = b, a
    if a != dh:
        return None, f'not relative to the Dhuhr term: {show(pay, maxd=3)[:120]}'
    r = D.rng(b)
    if r == D.TOP:
        return None, f'offset range unknown: {show(b, maxd=4)[:100]}'
    lo, hi = r
    if pay[1] != op:
        # D + T for Fajr is definitely wrong when T >= 0
        if lo >= 0:
            return False, f'{k} is Dhuhr {pay[1]} a non-negative offset; must be on the other side of noon'
        return None, 'offset sign unknown'
    if lo < 0:
        return False if hi <= 0 and hi < lo + 1e300 and hi < 0 else None, f'offset range [{lo:.3f},{hi:.3f}] is not non-negative'
    if hi > 12.0 + 1e-9:
        return False, f'offset can reach {hi:.3f} h (> 12 h from Dhuhr)'
    return True, f'{k} = Dhuhr {"-" if sign < 0 else "+"} t, t in [{lo:.3f}, {hi:.3f}] h'


def hour_per_degree(c, k):
    """the constant that turns the hour angle (degrees) into hours in value(k) = Dhuhr -/+ const * to_degrees(acos(..))"""
    g, pay, shape = c.guard_and_payload(k)
    out = []
    if pay is None:
        return out
    from ..terms import subterms
    from .common import const_f64
    for x in subterms(pay):
        if x and x[0] == 'bin' and x[1] in ('Mul', 'Div'):
            for a, b in ((x[2], x[3]), (x[3], x[2])):
                if const_f64(a) is not None and b[0] == 'app' and b[1] == 'to_degrees' and b[2][0][0] == 'app' and b[2][0][1] == 'acos':
                    out.append(const_f64(a) if (x[1] == 'Mul' or a is x[2]) else 1.0 / const_f64(a))
    return out


def check_hour_per_degree(c, rep, rule, k):
    ks = hour_per_degree(c, k)
    if not ks:
        rep.ob(rule, f'{k}:hours-per-degree', None, 'conversion constant not isolated')
        return
    ok = all(abs(v - 1.0 / 15.0) < 1e-9 for v in ks)
    rep.ob(rule, f'{k}:hours-per-degree', ok, f'hour angle is converted with {ks} h/deg (the Earth turns 15 deg per hour: 1/15)')


def run(ctx, rep):
    rep.explanation = (
        'Decides: exactly seven entries (key sets of every map on the path, all outcomes), orientation of Fajr/Asr/Isha around '
        'the very Dhuhr term with offsets in [0,12] h, and that nothing is flagged extreme under policy None in any skeleton world. '
        'Strict inequalities between values of different solvers (Fajr < Shurooq, Asr < Maghrib, ...) are numeric: not decided.')
    rep.trusted = ['rustc MIR', 'acos in [0, pi]', 'HashMap/BTreeMap from_iter keep the keys their closures return']
    c = CV.get(ctx)
    # ---- R5.1 seven entries ------------------------------------------------------
    ks = sorted(c.values)
    rep.ob('R5.1', 'conventional-keys', ks == sorted(SIX), f'conventional map keys: {ks}')
    pa = W.get(ctx, rep)
    bad = [w for w in pa.worlds if not w.final or sorted(w.final) != sorted(SIX)]
    rep.ob('R5.1', 'policy-layer-keys', not bad, f'{len(pa.worlds) - len(bad)}/{len(pa.worlds)} worlds end with exactly the six keys',
           world=bad[0].describe() if bad else None)
    from . import c07
    eng2, tree2 = c07.dt_level(ctx)
    n = 0
    for st in E.leaves_of(tree2):
        n += 1
        r = st.ret
        keys = None
        if isinstance(r, tuple) and r and r[0] == 'map' and r[1] is None:
            keys = sorted(k[2] for k, _ in r[2])
        rep.ob('R5.1', 'result-keys', keys == sorted(PRAYERS), f'result map keys: {keys}')
    rep.floor('prayer_times_dt outcomes', n, 1)
    ends = E.count_ends(tree2, kinds={'panic', 'diverge'})
    # ---- R5.2 orientation ----------------------------------------------------------
    for k, sgn in (('Fajr', -1), ('Isha', +1), ('Asr', +1)):
        ok, detail = orientation(c, k, sgn)
        rep.ob('R5.2', f'{k}:orientation', ok, detail)
        check_hour_per_degree(c, rep, 'R5.2', k)
    # ---- R5.3 nothing flagged under None ----------------------------------------------
    nn = 0
    for w in pa.worlds:
        if w.policy != 'None' or not w.final:
            continue
        nn += 1
        for k in SIX:
            cell = W.cell_under(w.final[k], w.asm)
            if cell[0] != 'Ok':
                continue
            ok = cell[2] == E.FALSE
            rep.ob('R5.3', f'None:{k}:unflagged', ok, 'not flagged' if ok else f'flagged extreme without a policy: {W.show_cell(cell)}',
                   world=w.describe())
            val = cell[1]
            prov = val == W.policy.conv_atom(k) or W.interval_provenance({kk: W.cell_under(w.final[kk], w.asm) for kk in SIX}, k, val)
            rep.ob('R5.3', f'None:{k}:conventional', prov, 'conventional or interval-defined value' if prov else
                   f'value is neither conventional nor interval-defined: {show(val, maxd=4)[:120]}', world=w.describe())
    rep.floor('policy-None worlds', nn, 16)
    rep.extra['worlds'] = nn
    # shared mechanism: no wrap-induced jump of the interpolated right ascension / declination (R1.2)
    from . import shared, modular, conv as _CV
    shared.include(ctx, rep, lambda c_, r_: modular.check(c_, r_, _CV.get(c_)), {'R1.2'}, why='360->0 seam hygiene of the interpolation')
    # shared mechanism: the clock-time conversion wraps into [0, 24) after the offset and cannot fail (R11.4, R11.7)
    from . import shared, c11 as _c11
    shared.include(ctx, rep, _c11.run, {'R11.3', 'R11.4', 'R11.7'}, why='every reported hour becomes a valid clock time (minutes from the same hour, wraps, bounded operands)')
    # the interval definitions (Isha = Maghrib + intervals[Isha]/60, ...) are what makes the schedule of an interval method
    # complete and ordered under policy None
    from . import c12 as _c12
    shared.include(ctx, rep, _c12.run, {'R12.2'}, floors=True, why='interval-defined times exist and follow their base time')

    # an entry "exists that day" exactly when the cosine of its hour angle lies in [-1, 1]: a wider guard lets acos return NaN,
    # which is reported as a conventional 00:00:00 far from Dhuhr (R6.1 decides the guard)
    from . import c06 as _c06
    shared.include(ctx, rep, _c06.run, {'R6.1'}, why='a conventional time is reported only when its hour angle exists')
    # Imsaak is the seventh entry: with no policy it carries no flag of its own (the builder's flag is the Fajr entry's flag)
    from . import imsaak as _imsaak
    shared.include(ctx, rep, lambda c_, r_: _imsaak.check(c_, r_, 'R5.4'), {'R5.4'},
                   keys=lambda k: k in ('imsaak:flag-is-fajr-flag',), why='nothing is flagged extreme without a policy - Imsaak included')
