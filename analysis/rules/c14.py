"""C14 - range results are the per-day results for exactly the days in the range (partial, structural)."""
from ..context import AnchorLost, last_seg
from .. import engine as E
from ..engine import is_const, cval
from .. import domains as D
from ..terms import show, subterms
from .common import const_f64, ite_leaves

INF = float('inf')


def lower_bound(t, facts=None):
    """greatest provable lower bound of an integer/float term; -inf when a signed library result is used unguarded;
    None = unknown"""
    facts = facts or {}
    if t in facts:
        return facts[t]
    k = const_f64(t)
    if k is not None:
        return k
    if not isinstance(t, tuple) or not t:
        return None
    if t[0] == 'app':
        f = t[1]
        if f.endswith('TimeDelta::num_days') or f.endswith('TimeDelta::num_seconds') or f.endswith('TimeDelta::num_hours'):
            return -INF          # signed by contract: negative when the subtrahend is the later date
        if f.endswith('::max') and len(t[2]) == 2:
            a, b = lower_bound(t[2][0], facts), lower_bound(t[2][1], facts)
            c = [x for x in (a, b) if x is not None]
            return max(c) if c else None
        if f.endswith('::abs') or f.endswith('unsigned_abs'):
            return 0.0
        if f.endswith('clamp') and len(t[2]) == 3:
            return lower_bound(t[2][1], facts)
        return None
    if t[0] == 'bin' and t[1] in ('Add', 'Sub'):
        a = lower_bound(t[2], facts)
        if t[1] == 'Add':
            b = lower_bound(t[3], facts)
            if a is None or b is None:
                return None
            return a + b
        kb = const_f64(t[3])
        if a is None or kb is None:
            return None
        return a - kb
    if t[0] == 'ite':
        fa, fb = dict(facts), dict(facts)
        c = t[1]
        if c[0] == 'bin' and const_f64(c[3]) is not None:
            k = const_f64(c[3])
            if c[1] in ('Ge', 'Gt'):
                fa[c[2]] = k
            if c[1] in ('Lt', 'Le'):
                fb[c[2]] = k
        a, b = lower_bound(t[2], fa), lower_bound(t[3], fb)
        if a is None or b is None:
            return None
        return min(a, b)
    if t[0] == 'cast':
        return lower_bound(t[2], facts)
    return None


def find(t, pred):
    out = []
    for x in subterms(t):
        if not x or not isinstance(x[0], str):
            continue
        try:
            if pred(x):
                out.append(x)
        except (IndexError, TypeError):
            pass
    return out


def run(ctx, rep):
    # the per-day computation is a function of the request alone (C20's R20.5): a value carried from one day of the range to the next (a cache keyed on less than the whole request) makes the stored result differ from the single-date result
    from . import shared as _sh, c20 as _c20h
    _sh.include(ctx, rep, _c20h.run, {'R20.5'}, why='no thread-local, static or lock-protected state on the computation path')
    rep.explanation = (
        'Decides structural clauses: the day count is (end - start).num_days() + 1 and its signed->usize cast cannot see a '
        'negative value (none when the end precedes the start); the range API iterates start.iter_days() limited by that count, '
        'calls the single-date API with the unchanged parameters for exactly that date and stores it under the same date; the '
        'partition blocks are [s, min(s+B-1, end)] with next start s+B for one B = ceil(days/count), guarded by s <= end. '
        '`at most max(k,1) parts` is arithmetic on runtime sizes: not decided.')
    rep.trusted = ['rustc MIR', 'chrono: NaiveDate - NaiveDate is signed; iter_days yields consecutive dates', 'BTreeMap insert']
    lib = ctx.lib
    nd = ctx.pub_fn('num_days', 'DateRange')
    part = ctx.pub_fn('partition', 'DateRange')
    rng_fn = ctx.pub_fn('prayer_times_dt_rng')
    dt = ctx.role('dt')

    # ---- R14.1 day count -----------------------------------------------------------------
    eng = ctx.engine()
    tree = eng.call_entry(nd, eng.sym_args(nd, ['self']))
    lv = list(E.leaves_of(tree))
    rep.ob('R14.1', 'single-outcome', len(lv) == 1, f'{len(lv)} outcomes of num_days')
    if len(lv) == 1:
        ret = lv[0].ret
        rep.sample({'num_days': show(ret, maxd=8)[:300]})
        casts = find(ret, lambda x: x[0] == 'cast' and 'IntToInt' in str(x[3]) and x[1] in ('usize', 'u64', 'u32'))
        nds = find(ret, lambda x: x[0] == 'app' and x[1].endswith('TimeDelta::num_days'))
        rep.floor('signed day-difference sites', len(nds), 1)
        for x in nds:
            sub = x[2][0]
            ok = sub[0] == 'app' and sub[1].endswith('ops::Sub>::sub') and len(sub[2]) == 2
            if ok:
                a, b = sub[2]
                okd = a[0] == 'app' and a[1] == 'range_end' and b[0] == 'app' and b[1] == 'range_start'
                rep.ob('R14.1', 'difference-orientation', okd,
                       f'day difference is {show(a)[:40]} - {show(b)[:40]} (must be end - start)')
            else:
                rep.ob('R14.1', 'difference-orientation', None, f'difference not recognised: {show(sub)[:80]}')
        # a reversed range has no days: the count must be clamped (max / clamp / a test), not folded back by an absolute value
        absapps = find(ret, lambda x: x[0] == 'app' and (x[1].endswith('::abs') or x[1].endswith('unsigned_abs')) and
                       any(y in nds for y in subterms(x)))
        rep.ob('R14.1', 'clamped-not-folded', not absapps, 'a negative day difference is clamped to 0' if not absapps else
               f'the count takes the absolute value of the day difference ({show(absapps[0], maxd=4)[:80]}): a range whose end precedes '
               'its start by g days counts g-1 days instead of none', where=lib.bodies[nd].span)
        # inclusive count: + 1
        plus1 = find(ret, lambda x: x[0] == 'bin' and x[1] == 'Add' and x[2] in nds and const_f64(x[3]) == 1.0)
        rep.ob('R14.1', 'inclusive-offset', bool(plus1), 'count is the day difference + 1' if plus1 else
               f'the inclusive +1 is missing: {show(ret, maxd=6)[:120]}')
        if not casts:
            # no unsigned cast at all: fine only if the value is provably non-negative
            lb = lower_bound(ret)
            rep.ob('R14.1', 'non-negative', None if lb is None else lb >= 0, f'lower bound {lb}')
        for cst in casts:
            lb = lower_bound(cst[2])
            if lb is None:
                rep.ob('R14.1', 'cast-operand-non-negative', None, f'operand range unknown: {show(cst[2], maxd=5)[:100]}')
            else:
                rep.ob('R14.1', 'cast-operand-non-negative', lb >= 0,
                       'operand of the signed->unsigned cast is clamped at 0' if lb >= 0 else
                       f'`{show(cst[2], maxd=5)[:100]} as {cst[1]}`: the operand is negative when the end precedes the start '
                       '(wraps to ~1.8e19 days)', where=lib.bodies[nd].span)

    # ---- R14.2 per-day loop ---------------------------------------------------------------------
    # the pieces the single-date API is made of stay opaque: the range API is compared with it at that level
    from ..facts import callee_name
    pieces = set()
    for _, t_ in lib.bodies[dt].calls():
        n_ = callee_name(t_)
        b_ = lib.bodies.get(n_)
        if b_ is not None and b_.kind in ('Fn', 'AssocFn') and not b_.derived:
            pieces.add(n_)
    eng = ctx.engine()
    eng.opaque.add(dt)
    eng.opaque.add(nd)
    eng.opaque |= pieces
    calls = []
    inserts = []

    def hook_call(eng, st, fr, t, name, args):
        if name == dt:
            calls.append((tuple(eng.purify(st, a) for a in args), fr.body.path))
        return None

    ins_asm = []

    def hook_ins(eng, st, fr, t, ptr, k, v):
        inserts.append((eng.purify(st, k), eng.purify(st, v), fr.body.path))
        ins_asm.append(dict(st.asm))
    eng.hooks['call'] = hook_call
    eng.hooks['map_insert'] = hook_ins
    args = eng.sym_args(rng_fn, ['params', 'location', 'date_range'])
    tree = eng.call_entry(rng_fn, args)
    rep.floor('result insertions in the range API', len(inserts), 1)
    # every result is stored on a path that has looked at the extent of the range (its end or its day count): a date emitted
    # before any such test is emitted for an empty range too
    for (k_, v_, fn_), asm_ in zip(inserts, ins_asm):
        sees = False
        for c_ in asm_:
            for x in subterms(c_):
                if x and x[0] == 'app' and (x[1] == 'range_end' or x[1] == nd or x[1].endswith('DateRange::end_date')):
                    sees = True
                if x and x[0] == 'iterhas':
                    sees = sees or any(y and y[0] == 'app' and y[1] == nd for y in subterms(x))
        src_sym = k_[0] == 'iterval'       # a generic element of a bounded source: the bound is the source's business (R14.2 iteration)
        rep.ob('R14.2', 'stored-only-inside-the-range', True if (sees or src_sym) else False,
               'a result is stored only after the extent of the range was consulted' if (sees or src_sym) else
               f'a result is stored under {show(k_, maxd=3)[:60]} on a path that never compared anything with the end of the range or its '
               'day count: an empty range (end before start) gets an entry')
    if not calls:
        # the range API does not call the single-date API itself: every stored value must then be the single-date
        # API's own value term for the date it is stored under
        n_same = 0
        for (k, v, fn2) in inserts:
            eng_d = ctx.engine()
            eng_d.opaque.add(nd)
            eng_d.opaque |= pieces
            tree_d = eng_d.call_entry(dt, [('param', 'params'), ('param', 'location'), k, E.NONE])
            lv_d = list(E.leaves_of(tree_d))
            if len(lv_d) != 1:
                rep.ob('R14.2', 'stored-value-is-single-date-value', None, f'{len(lv_d)} outcomes of the single-date API at the level of its pieces')
                continue
            want = E.intern(eng_d.purify(lv_d[0], lv_d[0].ret))
            got = E.intern(v)
            okv = want == got
            if okv:
                n_same += 1
            rep.ob('R14.2', 'stored-value-is-single-date-value', okv,
                   'the value stored under date d is the single-date API\'s value for d' if okv else
                   f'the value stored under {show(k, maxd=3)[:60]} is {show(got, maxd=4)[:200]} but the single-date API computes '
                   f'{show(want, maxd=4)[:200]} for that date', where=lib.bodies[rng_fn].span)
        rep.floor('stored values compared with the single-date API', n_same + (len(inserts) - n_same), 1)
    else:
        rep.floor('single-date API calls in the range API', len(calls), 1)
    for (a, fn) in calls:
        okp = a[0] == ('param', 'params')
        okl = a[1] == ('param', 'location')
        d = a[2]
        okw = a[3][0] == 'enum' and a[3][2] == 'None'
        it = d[2] if d[0] == 'iterval' else None
        oki = False
        detail = f'date argument {show(d, maxd=6)[:200]}'
        if it is not None and it[0] == 'iter' and it[1] == 'take':
            src, n = it[2], it[3]
            ok_src = src[0] == 'app' and src[1].endswith('NaiveDate::iter_days') and \
                any(x and x[0] == 'app' and x[1] == 'range_start' and x[2] == (('field', ('param', 'date_range'), '0'),) for x in subterms(src))
            ok_n = n == ('app', nd, (('param', 'date_range'),))
            oki = ok_src and ok_n
            detail = f'iterates {show(src, maxd=4)[:80]} limited by {show(n, maxd=3)[:60]}'
        recognised = it is not None and it[0] == 'iter' and it[1] == 'take'
        if it is not None and it[0] == 'app' and it[1].endswith('iter::successors') and it[2]:
            first = it[2][0]
            uncond = first[0] == 'enum' and first[2] == 'Some' and first[4] and not any(x and x[0] == 'ite' for x in subterms(first))
            if uncond:
                rep.ob('R14.2', 'iteration', False, f'the dates come from successors(Some({show(first[4][0], maxd=3)[:60]}), ..): the first date is '
                       'emitted without being compared with the end of the range, so an empty range (end before start) yields one day')
                continue_iter = True
            else:
                rep.ob('R14.2', 'iteration', None, detail + ' - a generated sequence: not decided')
        else:
            rep.ob('R14.2', 'iteration', oki if recognised else None, detail + ('' if oki else ' - expected start.iter_days().take(num_days())'))
        rep.ob('R14.2', 'same-params', okp and okl and okw, 'single-date API receives the unchanged params, location and no weather'
               if okp and okl and okw else f'arguments: {show(a[0])[:40]}, {show(a[1])[:40]}, weather {show(a[3])[:40]}')
        for (k, v, fn2) in inserts:
            okk = k == d
            okv = v == ('app', dt, a)
            rep.ob('R14.2', 'stored-under-same-date', okk and okv,
                   'result of the call for date d is stored under d' if okk and okv else
                   f'stored key {show(k, maxd=3)[:80]} / value {show(v, maxd=2)[:80]}')

    # ---- R14.3 partition -----------------------------------------------------------------------------
    eng = ctx.engine()
    eng.opaque.add(nd)
    pushes = []

    def hook_push(eng, st, fr, t, ptr, v):
        pushes.append((eng.purify(st, v), dict(st.asm)))
    eng.hooks['vec_push'] = hook_push
    args = eng.sym_args(part, ['self', 'count'])
    tree = eng.call_entry(part, args)
    lv = list(E.leaves_of(tree))
    rep.ob('R14.3', 'single-outcome', len(lv) == 1, f'{len(lv)} outcomes of partition')
    if eng.incomplete:
        rep.ob('engine', 'incomplete', None, str(eng.incomplete[:2]))
    if len(lv) == 1:
        ret = lv[0].ret
        # count < 2 -> the range itself
        small = [v for c, v in ite_leaves(ret) if any(cc[0] == 'bin' and cc[1] == 'Lt' and cc[2] == ('param', 'count') and
                                                      const_f64(cc[3]) == 2.0 and pol for cc, pol in c)]
        oks = bool(small) and all(v == ('vec', (('param', 'self'),)) for v in small)
        rep.ob('R14.3', 'fewer-than-two-parts', oks, 'count < 2 returns the range itself' if oks else
               f'count < 2 returns {[show(v)[:60] for v in small]}')
    SELF0 = ('field', ('param', 'self'), '0')
    START, END = ('app', 'range_start', (SELF0,)), ('app', 'range_end', (SELF0,))
    days = ('app', nd, (('param', 'self'),))
    rep.floor('pushed blocks', len(pushes), 1)
    # a second run unrolls the loop three times without abstraction: the starts of consecutive blocks are then explicit
    eng2 = ctx.engine(loop_bound=4)
    eng2.loop_abstract = False
    eng2.opaque.add(nd)
    pushes2 = []

    def hook_push2(eng, st, fr, t, ptr, v):
        pushes2.append((eng.purify(st, v), dict(st.asm)))
    eng2.hooks['vec_push'] = hook_push2
    eng2.call_entry(part, eng2.sym_args(part, ['self', 'count']))
    rep.floor('pushed blocks (unrolled run)', len(pushes2), 3)

    def date_plus(t):
        """(date, n) if t is `date + Duration::days(n)`"""
        if t[0] == 'app' and t[1].endswith('ops::Add<chrono::TimeDelta>>::add') and len(t[2]) == 2:
            dd = t[2][1]
            if dd[0] == 'app' and dd[1].endswith('TimeDelta::days') and len(dd[2]) == 1:
                return t[2][0], dd[2][0]
        return None

    def min_args(t):
        """{a, b} if t is min(a, b) written with Ord::min or as a comparison that selects the smaller"""
        if t[0] == 'app' and t[1].endswith('::min') and len(t[2]) == 2:
            return t[2]
        if t[0] == 'ite' and t[1][0] == 'app' and t[1][1] in ('cmp_lt', 'cmp_le', 'cmp_gt', 'cmp_ge') and len(t[1][2]) == 2:
            x, y = t[1][2]
            small, large = (x, y) if t[1][1] in ('cmp_lt', 'cmp_le') else (y, x)
            if t[2] == small and t[3] == large:
                return (small, large)
        return None

    Bs = set()
    starts = set()
    blocks = []
    for (v, asm) in pushes + pushes2:
        if not (v[0] == 'enum' and v[4] and v[4][0][0] == 'rangeincl'):
            rep.ob('R14.3', 'block-shape', False, f'pushed value is not DateRange(s..=e): {show(v)[:100]}')
            continue
        blk = (v[4][0][1], v[4][0][2])
        if blk not in blocks:
            blocks.append(blk)
            starts.add(blk[0])
    steps = []
    n_ok = 0
    for (s0, e0) in blocks:
        # the start is the range start, the abstract running start, or the previous start + B
        oks = s0 == START or (s0[0] == 'loopval' and s0[2] == START)
        if not oks:
            dp = date_plus(s0)
            if dp is not None and dp[0] in starts:
                steps.append(dp[1])
                oks = True
        rep.ob('R14.3', 'block-start', oks, 'block starts at the running start date' if oks else f'block starts at {show(s0)[:80]}')
        oke = False
        detail = f'block end is {show(e0, maxd=5)[:160]}'
        ma = min_args(e0)
        if ma is not None and END in ma:
            cand = ma[0] if ma[1] == END else ma[1]
            dp = date_plus(cand)
            if dp is not None and dp[0] == s0 and dp[1][0] == 'bin' and dp[1][1] == 'Sub' and const_f64(dp[1][3]) == 1.0:
                Bs.add(dp[1][2])
                oke = True
                detail = 'block end is min(s + B - 1, end)'
        rep.ob('R14.3', 'block-end', oke, detail)
        if oks and oke:
            n_ok += 1
    rep.floor('blocks of the form [s, min(s+B-1, end)]', n_ok, 3)
    # next start = s + days(B) with the same B
    bad_steps = [x for x in steps if x not in Bs]
    step_ok = bool(steps) and not bad_steps
    rep.ob('R14.3', 'next-start', step_ok,
           'next start is s + B for the same B' if step_ok else
           f'next start advances by {[show(x, maxd=4)[:80] for x in (bad_steps or steps)][:2]} (block size {[show(x, maxd=3)[:60] for x in Bs]})')
    rep.floor('observed steps between consecutive blocks', len(steps), 2)
    rep.ob('R14.3', 'one-block-size', len(Bs) <= 1, f'{len(Bs)} different block sizes are used')
    for B in Bs:
        # B = ceil(days / count) as i64
        inner = B
        while inner[0] == 'cast':
            inner = inner[2]
        okB = inner[0] == 'app' and inner[1] == 'ceil'
        if okB:
            q = inner[2][0]
            okB = q[0] == 'bin' and q[1] == 'Div' and any(x == days for x in subterms(q[2])) and any(x == ('param', 'count') for x in subterms(q[3]))
        rep.ob('R14.3', 'block-size', okB, 'B = ceil(days / count)' if okB else f'block size is {show(B, maxd=6)[:160]}')
    rep.floor('block-size terms', len(Bs), 1)
    # loop guard: a block starting at s is produced exactly on the paths where s <= end holds
    n_g = 0
    badg = []
    for (v, asm) in pushes + pushes2:
        if not (v[0] == 'enum' and v[4] and v[4][0][0] == 'rangeincl'):
            continue
        s0 = v[4][0][1]
        rel = None
        for c, pol in asm.items():
            if not (isinstance(c, tuple) and c and c[0] == 'app' and c[1] in ('cmp_le', 'cmp_lt', 'cmp_ge', 'cmp_gt') and len(c[2]) == 2):
                continue
            a, b = c[2]
            op = c[1][4:]
            if a == END and b == s0:
                a, b = b, a
                op = {'le': 'ge', 'lt': 'gt', 'ge': 'le', 'gt': 'lt'}[op]
            if not (a == s0 and b == END):
                continue
            if not pol:
                op = {'le': 'gt', 'lt': 'ge', 'ge': 'lt', 'gt': 'le'}[op]
            rel = op          # the path condition says: s0 <op> end
        if rel is None:
            continue
        n_g += 1
        if rel != 'le':
            badg.append(f'a block is produced when its start is {rel} the end of the range')
    okg = n_g > 0 and not badg
    rep.ob('R14.3', 'loop-guard', okg if n_g else None, 'blocks are produced exactly while s <= end' if okg else
           (sorted(set(badg))[0] + ' (expected: while start <= end)' if badg else 'no condition relating a block start to the range end found'))
