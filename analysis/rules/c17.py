"""C17 - Hijri conversion is the tabular Islamic calendar (structural clauses).

Decided on the abstract result of `HijriDate::from(date)` (all private helpers inlined, loops abstracted):
the day-number formulas agree with the reference formulas of the tabular calendar (normal-form comparison), the year and
month searches establish the half-open intervals [first day of y, first day of y+1) and (.., last day of m], the month-length
rule is the 30/29 alternation with a 30-day twelfth month in leap years (truth table over month number x leap), the leap
rule is the euclidean 30-year cycle, the weekday is (day number mod 7) + 1 in 1..=7, the before-Hijra mapping, the
number -> enum tables, the wiring of the fields into accessors and Display, who may construct the type, and the
failure sites.  Day-for-day equality itself is arithmetic over 3.6 million dates and is NOT decided here."""
import itertools
from ..context import AnchorLost, last_seg
from .. import engine as E
from ..engine import is_const, cval, intern
from .. import domains as D
from .. import formula as F
from ..terms import show, subterms
from .common import const_f64
from . import c07

EPOCH = 227015.0      # R.D. of 0622-07-19 (proleptic Gregorian) = 200 + 365*621 + 155 - 6 + 1, a Friday (227015 mod 7 = 5)
DAYS = ['Ahad', 'Ithnain', 'Thulatha', 'Arbiaa', 'Khamees', 'Jumaah', 'Sabt']
MONTHS = ['Muharram', 'Safar', 'RabiaAwal', 'RabiaThani', 'JumadaAwal', 'JumadaThani', 'Rajab', 'Shaaban', 'Ramadan', 'Shawwal',
          'DhulQiddah', 'DhulHijjah']


# ------------------------------------------------------------------------------------------------ term builders
def K(v):
    return E.C('f64', float(v))


def add(*xs):
    out = xs[0]
    for x in xs[1:]:
        out = ('bin', 'Add', out, x)
    return out


def sub(a, b):
    return ('bin', 'Sub', a, b)


def mul(a, b):
    return ('bin', 'Mul', a, b)


def div(a, b):
    return ('bin', 'Div', a, b)


def floor(a):
    return ('app', 'floor', (a,))


def ref_hijri_abs(d, m, y):
    """d + 29(m-1) + floor(m/2) + 354(y-1) + floor((3+11y)/30) + EPOCH - 1"""
    return sub(add(d, mul(K(29), sub(m, K(1))), floor(div(m, K(2))), mul(K(354), sub(y, K(1))),
                   floor(div(add(K(3), mul(K(11), y)), K(30))), K(EPOCH)), K(1))


def ref_greg_abs(ordinal, year):
    y1 = sub(year, K(1))
    return add(ordinal, mul(K(365), y1), floor(div(y1, K(4))), ('un', 'Neg', floor(div(y1, K(100)))), floor(div(y1, K(400))))


# ------------------------------------------------------------------------------------------------ concrete evaluation of closed forms
def _rd(y, m, d):
    """proleptic Gregorian day number (R.D., 0001-01-01 = 1) in integer arithmetic"""
    import datetime
    return datetime.date(y, m, d).toordinal()


def _witness_dates():
    import calendar
    out = []
    for y in (1, 4, 100, 400, 622, 1582, 1600, 1700, 1900, 2000, 2023, 2024, 2100, 2400, 9999):
        for m in range(1, 13):
            out.append((y, m, 1))
            out.append((y, m, calendar.monthrange(y, m)[1]))
        out.append((y, 2, 28))
        out.append((y, 7, 19))
    return out


def _date_env(date, y, m, d):
    import datetime
    dt = datetime.date(y, m, d)
    o = dt.timetuple().tm_yday
    vals = {'year': y, 'month': m, 'day': d, 'ordinal': o, 'month0': m - 1, 'day0': d - 1, 'ordinal0': o - 1,
            'leap_year': (y % 4 == 0 and y % 100 != 0) or y % 400 == 0}
    return (date, vals)


_INT_T = ('i8', 'i16', 'i32', 'i64', 'i128', 'isize', 'u8', 'u16', 'u32', 'u64', 'u128', 'usize')


def _ceval(t, env, memo=None):
    """value of a closed-form term under an assignment of the date's calendar fields; None where the term is not closed"""
    if memo is None:
        memo = {}
    k = id(t)
    if k in memo:
        return memo[k]
    r = _ceval1(t, env, memo)
    memo[k] = r
    return r


def _ceval1(t, env, memo):
    import math
    if not isinstance(t, tuple) or not t:
        return None
    h = t[0]
    if h == 'c':
        return t[2] if isinstance(t[2], (int, float, bool)) else None
    if h == 'cast':
        v = _ceval(t[2], env, memo)
        if v is None or isinstance(v, bool):
            return None
        if t[1] in ('f64', 'f32'):
            return float(v)
        if t[1] in _INT_T:
            if isinstance(v, float) and (math.isnan(v) or math.isinf(v)):
                return None
            v = int(v)
            if t[1].startswith('u') and v < 0:
                return None         # wrapping / saturating casts of negative values: not needed for dates of the common era
            return v
        return None
    if h == 'ite':
        c = _ceval(t[1], env, memo)
        if not isinstance(c, bool):
            return None
        return _ceval(t[2] if c else t[3], env, memo)
    if h == 'un':
        v = _ceval(t[2], env, memo)
        if v is None:
            return None
        if t[1] == 'Neg' and not isinstance(v, bool):
            return -v
        if t[1] == 'Not' and isinstance(v, bool):
            return not v
        return None
    if h == 'bin':
        a, b = _ceval(t[2], env, memo), _ceval(t[3], env, memo)
        if a is None or b is None:
            return None
        op = t[1]
        if op.endswith('Unchecked'):
            op = op[:-9]
        bothint = isinstance(a, int) and isinstance(b, int) and not isinstance(a, bool) and not isinstance(b, bool)
        try:
            if op == 'Add':
                return a + b
            if op == 'Sub':
                return a - b
            if op == 'Mul':
                return a * b
            if op == 'Div':
                if bothint:
                    return None if b == 0 else int(math.trunc(a / b)) if abs(a) < 2 ** 52 else None
                return a / b
            if op == 'Rem':
                if bothint:
                    return None if b == 0 else a - b * int(math.trunc(a / b))
                return math.fmod(a, b)
            if op in ('Lt', 'Le', 'Gt', 'Ge', 'Eq', 'Ne'):
                return {'Lt': a < b, 'Le': a <= b, 'Gt': a > b, 'Ge': a >= b, 'Eq': a == b, 'Ne': a != b}[op]
            if op in ('BitAnd', 'BitOr') and isinstance(a, bool) and isinstance(b, bool):
                return (a and b) if op == 'BitAnd' else (a or b)
        except (ZeroDivisionError, OverflowError, TypeError, ValueError):
            return None
        return None
    if h == 'app':
        name = last_seg(t[1]) if '::' in t[1] else t[1]
        date, vals = env
        if name in vals and t[2] == (date,):
            return vals[name]
        args = [_ceval(x, env, memo) for x in t[2]]
        if any(x is None for x in args):
            return None
        try:
            if name == 'floor' and len(args) == 1:
                return float(math.floor(args[0]))
            if name == 'ceil' and len(args) == 1:
                return float(math.ceil(args[0]))
            if name == 'trunc' and len(args) == 1:
                return float(math.trunc(args[0]))
            if name in ('abs', 'unsigned_abs') and len(args) == 1:
                return abs(args[0])
            if name == 'rem_euclid' and len(args) == 2 and args[1] != 0:
                return args[0] % abs(args[1])
            if name == 'div_euclid' and len(args) == 2 and args[1] != 0 and all(isinstance(x, int) for x in args):
                q = (args[0] - args[0] % abs(args[1])) // args[1]
                return q
        except (OverflowError, ValueError, TypeError):
            return None
    return None


def strip(t):
    while isinstance(t, tuple) and t and t[0] == 'cast':
        t = t[2]
    return t


def mentions(t, x):
    return any(y is x or y == x for y in subterms(t))


def cmp_norm(c):
    """(op, lhs, rhs) of a comparison condition (bin or cmp_* app), else None"""
    if isinstance(c, tuple) and c:
        if c[0] == 'bin' and c[1] in ('Lt', 'Le', 'Gt', 'Ge', 'Eq', 'Ne'):
            return c[1], c[2], c[3]
        if c[0] == 'app' and c[1] in ('cmp_lt', 'cmp_le', 'cmp_gt', 'cmp_ge') and len(c[2]) == 2:
            return {'cmp_lt': 'Lt', 'cmp_le': 'Le', 'cmp_gt': 'Gt', 'cmp_ge': 'Ge'}[c[1]], c[2][0], c[2][1]
    return None


FLIP = {'Lt': 'Gt', 'Le': 'Ge', 'Gt': 'Lt', 'Ge': 'Le', 'Eq': 'Eq', 'Ne': 'Ne'}
NEG = {'Lt': 'Ge', 'Le': 'Gt', 'Gt': 'Le', 'Ge': 'Lt', 'Eq': 'Ne', 'Ne': 'Eq'}


def guard_vs(cn, c, polarity, ref_lhs, ref_rhs):
    """Compare the decided condition (c == polarity) with the reference relation `ref_lhs OP ref_rhs`.
    Returns (verdict, op): verdict in equal/different/unknown for the compared difference polynomial and the operator
    of the code written in the orientation of the reference (lhs - rhs OP 0)."""
    n = cmp_norm(c)
    if n is None:
        return 'unknown', None
    op, a, b = n
    if not polarity:
        op = NEG[op]
    code = F.padd(cn.cf(a), cn.cf(b), -1.0)
    ref = F.padd(cn.cf(ref_lhs), cn.cf(ref_rhs), -1.0)
    if F.poly_eq(code, ref):
        return 'equal', op
    neg = {m: -v for m, v in code.items()}
    if F.poly_eq(neg, ref):
        return 'equal', FLIP[op]
    v1 = F.compare_polys(ref, code)
    v2 = F.compare_polys(ref, neg)
    # an integer shift of the comparison (x < k+1 for x <= k) is not recognised: unknown unless the shapes coincide
    return ('different' if 'different' in (v1, v2) else 'unknown'), op


# ---------------------------------------------------------------------------------------------------- the check
def run(ctx, rep):
    rep.explanation = (
        'Structural clauses of the tabular calendar decided on the abstract value of HijriDate::from(date): reference-formula '
        'agreement of both day-number formulas (polynomial normal forms over floor atoms), half-open year interval and closed '
        'month end established by the two searches (guard and step of every loop), 30/29 month-length truth table over the 12 '
        'month numbers x leap, euclidean 30-year leap rule, weekday = (day number mod 7)+1 within 1..=7, before-Hijra mapping, '
        'number->enum tables, field wiring into accessors and Display, construction sites, failure-site inventory. Equality with '
        'the tabular calendar for each of the 3,652,059 dates is arithmetic over runtime values and is not decided; the initial '
        'year estimate (a lower bound is needed) and i32/u8 overflow checks are not decided.')
    rep.trusted = ['rustc MIR', 'chrono Datelike::year/ordinal', 'all atoms of the formulas are integers (casts between numeric types are exact)',
                   'atoms of a normal form are algebraically independent (used only to call two formulas different)']
    rep.assumptions = ['dates of the common era: year() >= 1 (the year-zero shift for negative years is outside the quantified range)']
    lib = ctx.lib
    HD = ctx.adt('HijriDate')
    frm = None
    disp = None
    for p, b in lib.bodies.items():
        io = b.impl_of or {}
        if last_seg(io.get('self_ty', '') or '') == 'HijriDate' and b.kind == 'AssocFn':
            tr = io.get('trait') or ''
            if tr.startswith('std::convert::From') and last_seg(p) == 'from' and b.arg_count == 1 and \
                    b.locals[1]['s'] == 'chrono::NaiveDate':
                frm = p
            if tr == 'std::fmt::Display' and last_seg(p) == 'fmt':
                disp = p
    if frm is None or disp is None:
        raise AnchorLost('HijriDate: From<NaiveDate> / Display impls')
    hadt = lib.adts[HD]
    fnames = [f['name'] for f in hadt['variants'][0]['fields']]

    # ---- field roles from the public accessors -------------------------------------------------------------
    role = {}
    for acc in ('date', 'day', 'month', 'year', 'pre_epoch', 'day_of_week'):
        p = ctx.pub_fn(acc, 'HijriDate')
        eng = ctx.engine()
        tree = eng.call_entry(p, eng.sym_args(p, ['self']))
        flds = set()
        for st in E.leaves_of(tree):
            for x in subterms(st.ret):
                if x and x[0] == 'field' and x[1] == ('param', 'self'):
                    flds.add(x[2])
        for e in eng.log:
            for x in subterms(e.get('info') or ()):
                pass
        if len(flds) != 1:
            # the accessor's value may have been consumed by a failing unwrap only: read the field from the MIR places
            b = lib.bodies[p]
            flds = set()
            for blk in b.blocks:
                for s in blk['stmts']:
                    if s['k'] == 'assign':
                        for pl in c07_places(s['rv']):
                            for e_ in pl.get('p', []):
                                if isinstance(e_, dict) and 'f' in e_ and e_.get('name'):
                                    flds.add(e_['name'])
        if len(flds) != 1:
            raise AnchorLost(f'field read by HijriDate::{acc}', str(sorted(flds)))
        role[acc] = next(iter(flds))
    rep.ob('R17.12', 'accessor-fields-distinct', len(set(role.values())) == 6,
           f'the six accessors read six different fields: {role}')

    # ---- abstract value of From::from ------------------------------------------------------------------------
    eng = ctx.engine()
    backs = []
    eng.hooks['loop_back'] = lambda eng_, st, fr, lid, l, init, cur: backs.append((lid, l, init, cur, dict(st.asm)))
    date = ('param', 'date')
    tree = eng.call_entry(frm, [date])
    lv = [st for st in E.leaves_of(tree)]
    if eng.incomplete:
        rep.ob('engine', 'incomplete', None, str(eng.incomplete[:2]))
    if eng.unmodelled:
        unm = [k for k in eng.unmodelled if not (k.endswith('Datelike>::year') or k.endswith('Datelike>::ordinal') or
                                                  k.endswith('Datelike>::month') or k.endswith('Datelike>::day') or
                                                  k.endswith('NaiveDate::from_ymd_opt') or k.endswith('::abs') or k.endswith('::rem_euclid'))]
        if unm:
            rep.ob('engine', 'unmodelled', None, f'library calls without a model: {unm[:4]}')
    rep.floor('outcomes of HijriDate::from', len(lv), 1)
    rets = [st.ret for st in lv if st.ret is not None and st.ret[0] == 'enum' and st.ret[1] == HD]
    if len(rets) != 1:
        rep.ob('R17.0', 'single-abstract-value', None, f'{len(rets)} abstract values of HijriDate::from')
        return
    ret = rets[0]
    # domain: year(date) >= 1
    dom = {}
    allconds = list(D.ite_conds(ret))
    for (_lid, _l, init_, cur_, asm_) in backs:
        for t_ in (init_, cur_) + tuple(asm_):
            if isinstance(t_, tuple):
                D.ite_conds(t_, allconds)
    for c in allconds:
        n = cmp_norm(c)
        if n and n[1][0] == 'app' and n[1][1].endswith('Datelike>::year') and const_f64(n[2]) is not None:
            k = const_f64(n[2])
            v = {'Lt': 1 < k, 'Le': 1 <= k, 'Gt': None if k >= 1 else True, 'Ge': None if k > 1 else True}.get(n[0])
            if n[0] in ('Lt', 'Le') and k <= (0 if n[0] == 'Le' else 1):
                v = False
            if v is not None:
                dom[c] = v
    # failing paths of the conversion that need year() < 1 are outside the quantified range
    ood = {}
    for e in eng.log:
        if e['kind'] == 'panic' and e.get('stack'):
            outside = any(c in dom and dom[c] != v for c, v in (e.get('asm') or {}).items())
            k = tuple(e['stack'][-1])
            ood[k] = ood.get(k, True) and outside
    ret = E.specialise(ret, dom)
    backs = [(lid, l, E.specialise(init, dom), E.specialise(cur, dom), {E.specialise(c, dom): v for c, v in asm.items() if c not in dom})
             for (lid, l, init, cur, asm) in backs]
    fld = dict(zip(fnames, ret[4]))
    rep.sample({f: show(fld[role[a]], maxd=5)[:200] for a, f in role.items()})
    cn = F.Canon()

    rep.ob('R17.12', 'date-field', fld[role['date']] == date, 'the Gregorian date is stored unchanged' if fld[role['date']] == date
           else f'date field is {show(fld[role["date"]], maxd=3)[:80]}')

    # ---- R17.8 weekday ------------------------------------------------------------------------------------------
    W = strip(fld[role['day_of_week']])
    G = None
    rems = []
    for x in subterms(W):
        if x and x[0] == 'bin' and x[1] == 'Rem' and const_f64(x[3]) is not None:
            rems.append((strip(x[2]), const_f64(x[3]), x, 'rem'))
        if x and x[0] == 'app' and (x[1] == 'rem_euclid' or x[1].endswith('::rem_euclid')) and len(x[2]) == 2 and const_f64(x[2][1]) is not None:
            rems.append((strip(x[2][0]), const_f64(x[2][1]), x, 'rem_euclid'))
    if len(rems) > 1:
        # remainders inside the dividend of another one (a Gregorian leap test `y % 4` in a hand-written day of the year) are not the weekday's
        inner = set()
        for r_ in rems:
            for y_ in subterms(r_[0]):
                if y_ is not r_[2] and any(y_ == o[2] for o in rems):
                    inner.add(y_)
        rems = [r_ for r_ in rems if r_[2] not in inner]
    if len(rems) != 1:
        rep.ob('R17.8', 'weekday-form', None, f'weekday is not a remainder of the day number: {show(W, maxd=5)[:120]}')
    else:
        G, modulus, remterm, kind = rems[0]
        rep.ob('R17.8', 'weekday-modulus', modulus == 7.0, f'weekday is the day number modulo {modulus:g}')
        # W = R + 1 with R = rem / |rem| / rem_euclid in [0, 6]
        Wp = cn.cf(W)
        Rabs = ('app', 'abs', (remterm,))
        okw = any(F.poly_eq(Wp, F.padd(cn.cf(R), {(): 1.0})) for R in (remterm, Rabs))
        # |G| % 7 is the same for the positive day numbers of the common era: the dividend may be wrapped in an abs
        while G is not None and G[0] == 'app' and (G[1].endswith('::abs') or G[1].endswith('::unsigned_abs') or G[1] == 'abs') and len(G[2]) == 1:
            G = strip(G[2][0])
        rep.ob('R17.8', 'weekday-range', okw and modulus == 7.0,
               'weekday = (day number mod 7) + 1, within 1..=7 (Sunday = R.D. 0 mod 7 = 1 = Ahad)' if okw else
               f'weekday is {show(W, maxd=6)[:140]} (expected (day number mod 7) + 1)')
    if G is None:
        # fall back: the day number is the minuend of the day-of-month term
        rep.ob('R17.1', 'day-number-term', None, 'Gregorian day number not identified')
        return

    # ---- R17.1 Gregorian day number -------------------------------------------------------------------------------
    ords = [x for x in subterms(G) if x and x[0] == 'app' and x[1].endswith('Datelike>::ordinal')]
    yrs = [x for x in subterms(G) if x and x[0] == 'app' and x[1].endswith('Datelike>::year')]
    if len(set(ords)) == 1 and len(set(yrs)) == 1 and ords[0][2] == (date,) and yrs[0][2] == (date,):
        cn.set_lower_bound(ords[0], 1)      # common era: year() >= 1, ordinal() >= 1
        cn.set_lower_bound(yrs[0], 1)
        v = F.compare_polys(cn.cf(ref_greg_abs(ords[0], yrs[0])), cn.cf(G))
        rep.ob('R17.1', 'gregorian-day-number', {'equal': True, 'different': False}.get(v),
               'day number = ordinal + 365(y-1) + floor((y-1)/4) - floor((y-1)/100) + floor((y-1)/400)' if v == 'equal' else
               f'Gregorian day number is {F.show_poly(cn.cf(G), show)[:260]}')
    else:
        # second reading, independent of the form: the day-number term is a closed form over the date's calendar fields (year, month, day,
        # ordinal); evaluated on witness dates - month starts and ends of common, leap, century and 400-year years - it must be the
        # proleptic Gregorian day number
        bad, und, n = [], None, 0
        for (y_, m_, d_) in _witness_dates():
            v_ = _ceval(G, _date_env(date, y_, m_, d_))
            if v_ is None:
                und = (y_, m_, d_)
                break
            n += 1
            if int(v_) != _rd(y_, m_, d_) or v_ != int(v_):
                bad.append((f'{y_:04d}-{m_:02d}-{d_:02d}', v_, _rd(y_, m_, d_)))
        if und is not None:
            rep.ob('R17.1', 'gregorian-day-number', None, f'day number does not read year()/ordinal() of the date once and does not evaluate '
                   f'on the witness date {und}: {show(G, maxd=4)[:120]}')
        else:
            rep.ob('R17.1', 'gregorian-day-number', not bad,
                   f'hand-written day number equals the proleptic Gregorian day number on {n} witness dates' if not bad else
                   f'day number is wrong on {len(bad)} of {n} witness dates, first: ' +
                   ', '.join(f'{a}: {b:g} (calendar: {c})' for a, b, c in bad[:3]))

    # ---- year, month terms -------------------------------------------------------------------------------------------
    M = strip(fld[role['month']])
    pre = fld[role['pre_epoch']]
    if pre[0] == 'ite' and pre[2] == E.TRUE and pre[3] == E.FALSE:
        pre = pre[1]
    yterm = fld[role['year']]
    yT, yF = strip(E.specialise(yterm, {pre: True})), strip(E.specialise(yterm, {pre: False}))
    Y = yF
    n = cmp_norm(pre)
    okp = False
    if n is not None:
        op, a, b = n
        d = F.padd(cn.cf(a), cn.cf(b), -1.0)
        yp = cn.cf(Y)
        # Y <= 0  or  Y < 1  (or the mirrored forms)
        for (o, k) in (('Le', 0.0), ('Lt', 1.0)):
            if op == o and F.poly_eq(d, F.padd(yp, {(): -k})):
                okp = True
            if op == FLIP[o] and F.poly_eq(d, F.padd({m: -c for m, c in yp.items()}, {(): k})):
                okp = True
    rep.ob('R17.9', 'before-hijra-flag', okp, 'the flag is set exactly for years <= 0' if okp else
           f'before-Hijra flag is {show(pre, maxd=4)[:120]} with year term {show(Y, maxd=3)[:60]}')
    ok9 = F.poly_eq(cn.cf(yT), F.padd({(): 1.0}, cn.cf(Y), -1.0))
    rep.ob('R17.9', 'before-hijra-year', ok9, 'year y <= 0 is reported as 1 - y B.H.' if ok9 else
           f'B.H. year is {F.show_poly(cn.cf(yT), show)[:160]} (expected 1 - y)')

    # ---- R17.7 / R17.2 day of month and Hijri day number ------------------------------------------------------------------
    Dm = strip(fld[role['day']])
    one = K(1)
    # the month number is at least 1 (the search starts at 1 and only counts up: R17.4) - lets a truncating `m / 2` be read as a floor
    cn.set_lower_bound(M, 1)
    for x in subterms(M):
        if x and x[0] == 'loopval':
            cn.set_lower_bound(x, 1)
    v = F.compare_polys(cn.cf(add(sub(G, ref_hijri_abs(one, M, Y)), one)), cn.cf(Dm))
    rep.ob('R17.2', 'day-of-month', {'equal': True, 'different': False}.get(v),
           'day = day number - [1 + 29(m-1) + floor(m/2) + 354(y-1) + floor((3+11y)/30) + 227015 - 1] + 1' if v == 'equal' else
           f'day of month is {F.show_poly(cn.cf(Dm), show)[:300]}')

    # ---- R17.14 every floor in the day-number formulas is taken of an exactly computed quotient ---------------------------
    def exact(t):
        """'int' = integer valued and computed exactly in f64; 'quot' = one correctly rounded division of exact integers"""
        t = strip(t) if t[0] == 'cast' and 'IntToFloat' in str(t[3] if len(t) > 3 else '') else t
        if is_const(t):
            v = const_f64(t)
            if v is None:
                return None
            if float(v).is_integer():
                return 'int'
            return 'dyad' if (float(v) * 1024.0).is_integer() else None     # 0.5, 0.25, ...: products and sums stay exact
        if t[0] == 'cast':
            return exact(t[2])
        if t[0] == 'bin' and t[1] in ('Add', 'Sub', 'Mul'):
            a, b = exact(t[2]), exact(t[3])
            if a in ('int', 'dyad') and b in ('int', 'dyad'):
                return 'dyad' if 'dyad' in (a, b) else 'int'
            return None
        if t[0] == 'bin' and t[1] == 'Div':
            if is_const(t[3]) and isinstance(cval(t[3]), int) and not isinstance(cval(t[3]), bool):
                return 'int' if exact(t[2]) == 'int' else None        # integer division: an exact integer
            return 'quot' if exact(t[2]) == 'int' and exact(t[3]) == 'int' else None
        if t[0] == 'bin' and t[1] == 'Rem':
            return 'int' if exact(t[2]) == 'int' and exact(t[3]) == 'int' else None
        if t[0] == 'un' and t[1] == 'Neg':
            return exact(t[2])
        if t[0] == 'app' and t[1] == 'floor' and len(t[2]) == 1:
            return 'int' if exact(t[2][0]) in ('int', 'dyad', 'quot') else None
        if t[0] in ('param', 'loopval', 'ite', 'field') or t[0] == 'app':
            return 'int'          # integer-valued leaves (years, months, day numbers, chrono getters)
        return None
    inexact = []
    n_floor = 0
    for T_ in (G, Dm):
        for x in subterms(T_):
            if x and x[0] == 'app' and x[1] == 'floor' and len(x[2]) == 1:
                n_floor += 1
                if not is_const(x[2][0]) and exact(x[2][0]) not in ('int', 'dyad', 'quot'):
                    inexact.append(x)
    rep.ob('R17.14', 'floor-arguments-exact', not inexact,
           f'{n_floor} floor operations, each of an exactly computed integer quotient' if not inexact else
           f'floor is taken of an inexactly computed quantity ({show(inexact[0], maxd=5)[:120]}): where the exact value is an integer the '
           'rounded one can fall just below it and a whole day is lost (one year in thirty)')

    # ---- R17.3 / R17.4 the searches -----------------------------------------------------------------------------------------
    seen = set()
    loops = []
    for (lid, l, init, cur, asm) in backs:
        lvterm = None
        for x in subterms(cur):
            if x and x[0] == 'loopval' and x[1] == (lid, l):
                lvterm = x
        if lvterm is None or cur == lvterm:
            continue
        key = (lid, l)
        if key in seen:
            continue
        seen.add(key)
        guards = [(c, v) for c, v in asm.items() if mentions(c, lvterm)]
        loops.append((lid, l, init, cur, lvterm, guards, asm))
    searches_opaque = any(k.startswith(('std::iter::', 'core::iter::')) for k in eng.unmodelled)
    if searches_opaque and len(loops) < 3:
        rep.ob('R17.3', 'searches', None, 'the year / month searches are written with iterator adaptors the interpreter has no model for: '
               f'{sorted(k for k in eng.unmodelled if k.startswith(("std::iter::", "core::iter::")))[:3]} - not decided')
    else:
        rep.floor('search loops', len(loops), 3)
    n_year = n_month = 0
    for (lid, l, init, cur, lvt, guards, asm) in loops:
        stepp = F.padd(cn.cf(cur), cn.cf(lvt), -1.0)
        step = F.const_of(stepp)
        in_year = mentions(Y, lvt)
        in_month = mentions(M, lvt)
        name = f'{last_seg(lid[0])}#{lid[1]}'
        if not (in_year or in_month):
            rep.ob('R17.3', f'loop:{name}', None, 'loop does not feed the year or the month')
            continue
        if len(guards) != 1:
            rep.ob('R17.3', f'loop:{name}:guard', None, f'{len(guards)} conditions on the loop value')
            continue
        (c, pol) = guards[0]
        if in_year and step == -1.0:
            n_year += 1
            # continue while G < first day of year lv; exit establishes first day of lv <= G
            verdict, op = guard_vs(cn, c, pol, G, ref_hijri_abs(one, one, lvt))
            ok = verdict == 'equal' and op == 'Lt'
            st = True if ok else (False if verdict in ('equal', 'different') else None)
            rep.ob('R17.3', 'backward-year-search', st,
                   'years before the epoch: searches down while the date is before 1 Muharram of y; exit: 1 Muharram y <= date' if ok else
                   (f'backward search continues while date {op} first day of year y: ' +
                    ('the exit condition `first day < date` excludes the first day of the year (1 Muharram goes to the previous year, month 13)'
                     if op == 'Le' else 'not the half-open interval [1 Muharram y, 1 Muharram y+1)') if verdict == 'equal' else
                    f'backward search guard {show(c, maxd=5)[:160]} is not `date < first day of year y`'),
                   where=lib.bodies[lid[0]].span)
            rep.ob('R17.3', 'backward-year-search-init', const_f64(init) == 0.0, f'backward search starts at year {show(init)[:30]} (0 = 1 B.H.)')
            # the branch is taken for dates before the epoch
            eps = [(cc, vv) for cc, vv in asm.items() if not mentions(cc, lvt) and cmp_norm(cc) and
                   F.const_of(cn.cf(cmp_norm(cc)[2])) == EPOCH and cmp_norm(cc)[1] is not None]
            if eps:
                cc, vv = eps[0]
                verdict, op = guard_vs(cn, cc, vv, G, K(EPOCH))
                oke = verdict == 'equal' and op == 'Lt'
                rep.ob('R17.3', 'epoch-branch', oke if verdict == 'equal' else None,
                       'dates before R.D. 227015 (1 Muharram 1 A.H.) take the backward search' if oke else f'epoch test is date {op} 227015')
        elif in_year and step == 1.0:
            n_year += 1
            verdict, op = guard_vs(cn, c, pol, G, ref_hijri_abs(one, one, add(lvt, one)))
            ok = verdict == 'equal' and op == 'Ge'
            st = True if ok else (False if verdict in ('equal', 'different') else None)
            rep.ob('R17.3', 'forward-year-search', st,
                   'years from the epoch: searches up while the date is on or after 1 Muharram of y+1; exit: date < 1 Muharram y+1' if ok else
                   (f'forward search continues while date {op} first day of year y+1' if verdict == 'equal' else
                    f'forward search guard {show(c, maxd=5)[:160]} is not `date >= first day of year y+1`'),
                   where=lib.bodies[lid[0]].span)
        elif in_month and step == 1.0:
            n_month += 1
            rep.ob('R17.4', 'month-search-init', const_f64(init) == 1.0, f'month search starts at month {show(init)[:30]}')
            nrm = cmp_norm(c)
            if nrm is None:
                rep.ob('R17.4', 'month-search', None, f'guard not a comparison: {show(c, maxd=4)[:100]}')
                continue
            # guard: G > last day of month lv  =  H(0, lv, Y) + L(lv, Y)
            op, a, b = nrm
            if not pol:
                op = NEG[op]
            diff = F.padd(cn.cf(a), cn.cf(b), -1.0)
            refd = F.padd(cn.cf(G), cn.cf(ref_hijri_abs(K(0), lvt, Y)), -1.0)
            rest = F.padd(diff, refd, -1.0)
            if not rest:
                rest2 = F.padd({m_: -c_ for m_, c_ in diff.items()}, refd, -1.0)
            Lterm = None
            sign = None
            for cand, sg in ((rest, 1), (F.padd({m_: -c_ for m_, c_ in diff.items()}, refd, -1.0), -1)):
                if len(cand) == 1:
                    (mono, coef), = cand.items()
                    if len(mono) == 1 and mono[0][0] == 'p' and abs(coef + 1.0) < 1e-9:
                        Lterm, sign = mono[0][1], sg
                        break
                    if mono == () :
                        Lterm, sign = K(-coef), sg
                        break
            if Lterm is None:
                v = F.compare_polys(F.padd(refd, {(('p', intern(('param', 'L'))),): -1.0}), diff)
                rep.ob('R17.4', 'month-search', False if v == 'different' else None,
                       f'month search guard is not `date > day number of the last day of month m`: {F.show_poly(diff, show)[:200]}')
                continue
            opn = op if sign == 1 else FLIP[op]
            okm = opn == 'Gt'
            rep.ob('R17.4', 'month-search', okm, 'searches up while the date is after the last day of month m; exit: date <= last day of m'
                   if okm else f'month search continues while date {opn} last day of month m', where=lib.bodies[lid[0]].span)
            month_length_rules(ctx, rep, cn, Lterm, lvt, Y)
        else:
            rep.ob('R17.3', f'loop:{name}', None, f'step {step} of a search loop not recognised')
    if not searches_opaque:
        rep.floor('year searches', n_year, 2)
        rep.floor('month searches', n_month, 1)

    leap_function(ctx, rep, frm)
    tables(ctx, rep)
    display_wiring(ctx, rep, disp, role)
    construction(ctx, rep, HD, frm)
    failure_sites(ctx, rep, frm, disp, ood)


def c07_places(rv):
    out = []
    if isinstance(rv, dict):
        for k, v in rv.items():
            if k == 'place' and isinstance(v, dict):
                out.append(v)
            elif isinstance(v, dict):
                out += c07_places(v)
            elif isinstance(v, list):
                for x in v:
                    out += c07_places(x)
    return out


def _val(t, env):
    """integer / boolean value of a term over constants after substituting env (term -> int); None if not evaluable"""
    def val(t):
        t_ = t
        while isinstance(t_, tuple) and t_ and t_[0] == 'cast':
            t_ = t_[2]
        for k, v in env.items():
            if t_ is k or t_ == k:
                return v
        n = const_f64(t_)
        if n is not None:
            return n
        if isinstance(t_, tuple) and t_ and t_[0] == 'bin':
            a, b = val(t_[2]), val(t_[3])
            if a is None or b is None:
                return None
            op = t_[1]
            if op == 'Add':
                return a + b
            if op == 'Sub':
                return a - b
            if op == 'Mul':
                return a * b
            if op == 'Rem' and b != 0:
                import math
                return math.fmod(a, b)
            if op in ('Eq', 'Ne', 'Lt', 'Le', 'Gt', 'Ge'):
                return {'Eq': a == b, 'Ne': a != b, 'Lt': a < b, 'Le': a <= b, 'Gt': a > b, 'Ge': a >= b}[op]
            if op == 'BitAnd' and isinstance(a, bool) and isinstance(b, bool):
                return a and b
            if op == 'BitOr' and isinstance(a, bool) and isinstance(b, bool):
                return a or b
        if isinstance(t_, tuple) and t_ and t_[0] == 'un' and t_[1] == 'Not':
            a = val(t_[2])
            return None if a is None else (not a)
        return None
    return val(t)


def eval_cond(c, env):
    r = _val(c, env)
    return r if isinstance(r, bool) else None


def month_length_rules(ctx, rep, cn, Lterm, m, Y):
    """R17.5 truth table of the month length over the 12 month numbers x leap; R17.6 the leap rule"""
    conds = []
    work = [Lterm]
    while work:
        x = work.pop()
        if isinstance(x, tuple) and x and x[0] == 'ite':
            if x[1] not in conds:
                conds.append(x[1])
            work += [x[2], x[3]]
    month_conds = [c for c in conds if eval_cond(c, {m: 1}) is not None]
    leap_conds = [c for c in conds if c not in month_conds]
    def by_evaluation():
        # the length of the twelfth month evaluated for every year of four 30-year cycles on both sides of the epoch, against the
        # tabular rule (11y + 14) mod 30 < 11; the other months for one leap and one common year
        bad_, n_ = [], 0
        for y in range(-60, 61):
            for mi in (range(1, 13) if y in (1, 2) else (12,)):
                v = value_at(Lterm, {m: mi, Y: y})
                got = const_f64(v) if v is not None else None
                if got is None:
                    import os as _os
                    if _os.environ.get('IPT_DEBUG_C17'):
                        print('DEBUG value_at ->', show(v, maxd=5)[:300] if v is not None else None, '| Y =', show(Y, maxd=4)[:200])
                    return None, f'month length not evaluable for month {mi}, year {y}'
                n_ += 1
                leap = (11 * y + 14) % 30 < 11
                want = 30.0 if (mi % 2 == 1 or (mi == 12 and leap)) else 29.0
                if got != want:
                    bad_.append(f'month {mi} of year {y}: {got:g} days, tabular {want:g}')
        return (not bad_), (f'month lengths agree with the tabular calendar on {n_} (month, year) cases' if not bad_ else
                            f'{len(bad_)} (month, year) cases disagree with the tabular calendar, e.g. ' + '; '.join(bad_[:3]))
    if len(leap_conds) > 1:
        okv, why = by_evaluation()
        rep.ob('R17.5', 'month-length-table', okv, why if okv is not None else f'{len(leap_conds)} conditions besides the month number: ' +
               '; '.join(show(c, maxd=4)[:70] for c in leap_conds[:4]) + f' ({why})')
        if okv is not None:
            rep.ob('R17.6', 'leap-rule', okv, why)
        return
    bad = []
    n = 0
    for mi in range(1, 13):
        for leap in (True, False):
            asm = {c: eval_cond(c, {m: mi}) for c in month_conds}
            for c in leap_conds:
                asm[c] = leap
            v = E.specialise(Lterm, asm)
            got = const_f64(v)
            want = 30.0 if (mi % 2 == 1 or (mi == 12 and leap)) else 29.0
            n += 1
            if got is None:
                bad.append(f'month {mi} leap={leap}: {show(v, maxd=3)[:40]}')
            elif got != want:
                bad.append(f'month {mi}{" (leap year)" if leap else ""}: {got:g} days, tabular {want:g}')
    rep.ob('R17.5', 'month-length-table', not bad,
           'odd months 30 days, even months 29, the twelfth month 30 in leap years (24 cases)' if not bad else
           'month lengths differ from the tabular calendar: ' + '; '.join(bad[:4]))
    rep.floor('month-length cases', n, 24)
    if not leap_conds:
        rep.ob('R17.6', 'leap-rule', False, 'the twelfth month never gets its leap day')
        return
    c = leap_conds[0]
    nrm = cmp_norm(c)
    # leap  <=>  (11y + 14) mod 30 < 11   (euclidean remainder; equivalently <= 10)
    ok = None
    detail = f'leap condition {show(c, maxd=6)[:160]} not recognised'
    if nrm is not None:
        op, a, b = nrm
        ap = cn.cf(a)
        kb = F.const_of(cn.cf(b))
        if len(ap) == 1 and kb is not None:
            (mono, coef), = ap.items()
            if len(mono) == 1 and coef == 1.0 and mono[0][0] in ('rem', 'rem_euclid') and mono[0][2] == 30.0:
                inner = F.thaw(mono[0][1])
                want = F.padd({m_: 11.0 * c_ for m_, c_ in cn.cf(Y).items()}, {(): 14.0})
                thr = (op == 'Lt' and kb == 11.0) or (op == 'Le' and kb == 10.0)
                same = F.poly_eq(inner, want)
                if mono[0][0] == 'rem_euclid':
                    if same and thr:
                        ok, detail = True, 'leap year <=> (11y + 14) mod 30 < 11 with the euclidean remainder (valid before the epoch too)'
                    else:
                        v = F.compare_polys(want, inner)
                        ok = False if (v in ('equal', 'different')) else None
                        detail = f'leap rule is ({F.show_poly(inner, show)[:80]}) mod 30 {op} {kb:g}; tabular: (11y + 14) mod 30 < 11'
                else:
                    has_abs = any(a_[0] == 'abs' for m_ in inner for a_ in m_)
                    if has_abs:
                        ok = False
                        detail = ('leap rule takes |11y| before the remainder: -11y and 11y are not congruent modulo 30, so years before '
                                  'the epoch get month lengths that disagree with the day-number formula')
                    elif same and thr:
                        ok = False
                        detail = ('leap rule uses the truncated remainder of 11y + 14, which is negative for years before the epoch '
                                  '(every B.H. year would be a leap year)')
                    else:
                        v = F.compare_polys(want, inner)
                        ok = False if v == 'different' else None
                        detail = f'leap rule is ({F.show_poly(inner, show)[:80]}) % 30 {op} {kb:g}; tabular: (11y + 14) mod 30 < 11'
    if ok is None:
        okv, why = by_evaluation()
        if okv is not None:
            ok, detail = okv, why
    rep.ob('R17.6', 'leap-rule', ok, detail)


def leap_function(ctx, rep, frm):
    """R17.6, second reading: a one-argument integer -> bool function below the conversion is the leap-year predicate; interpreted
    on constant years (four 30-year cycles on both sides of the epoch) it must be the tabular rule (11y + 14) mod 30 < 11"""
    cands = []
    for p in sorted(ctx.reach(frm)):
        b = ctx.lib.bodies.get(p)
        if b is None or b.kind not in ('Fn', 'AssocFn') or b.arg_count != 1:
            continue
        if b.locals[0]['s'] == 'bool' and b.locals[1]['s'] in ('i32', 'i64', 'u32', 'u64', 'isize', 'usize', 'i16', 'u16'):
            cands.append(p)
    if len(cands) != 1:
        rep.extra['leap_predicate_functions'] = cands
        return
    p = cands[0]
    ty = ctx.lib.bodies[p].locals[1]['s']
    bad, n = [], 0
    for y in range(-60 if ty.startswith('i') else 0, 61):
        eng = ctx.engine()
        try:
            tree = eng.call_entry(p, [E.C(ty, y)])
            lv = list(E.leaves_of(tree))
        except Exception:   # noqa
            lv = []
        v = lv[0].ret if len(lv) == 1 else None
        if not (isinstance(v, tuple) and v and v[0] == 'c' and isinstance(v[2], bool)):
            rep.ob('R17.6', f'leap-predicate:{last_seg(p)}', None, f'{p}({y}) does not fold to a constant')
            return
        n += 1
        if v[2] != ((11 * y + 14) % 30 < 11):
            bad.append(y)
    rep.ob('R17.6', f'leap-predicate:{last_seg(p)}', not bad,
           f'{p} is the tabular leap rule on {n} years around the epoch' if not bad else
           f'{p} disagrees with the tabular rule (11y + 14) mod 30 < 11 for years {bad[:6]} (of {n} evaluated): month lengths and the '
           'day-number formula count different leap days', where=ctx.lib.bodies[p].span)


def tables(ctx, rep):
    """R17.10 number -> enum tables agree with the declared discriminants and are total on their range"""
    lib = ctx.lib
    for (ename, names) in (('HijriDay', DAYS), ('HijriMonth', MONTHS)):
        adt = ctx.adt(ename)
        a = lib.adts[adt]
        decl = [(v['name'], int(v['discr'])) for v in a['variants']]
        okd = decl == [(nm, i + 1) for i, nm in enumerate(names)]
        rep.ob('R17.10', f'{ename}:discriminants', okd, f'{ename} variants are numbered 1..={len(names)} in calendar order' if okd else
               f'{ename} is declared as {decl[:4]}...')
        tf = None
        for p, b in lib.bodies.items():
            io = b.impl_of or {}
            if io.get('self_ty') == adt and (io.get('trait') or '').startswith('std::convert::TryFrom') and last_seg(p) == 'try_from' and \
                    b.arg_count == 1 and b.locals[1]['s'] == 'u8':
                tf = p
        if tf is None:
            rep.ob('R17.10', f'{ename}:try_from', None, 'TryFrom<u8> impl not found')
            continue
        bad = []
        for nval in range(0, len(names) + 2):
            eng = ctx.engine()
            tree = eng.call_entry(tf, [E.C('u8', nval)])
            lv = list(E.leaves_of(tree))
            if len(lv) != 1:
                bad.append(f'{nval}: {len(lv)} outcomes')
                continue
            try:
                r = eng.force(lv[0], lv[0].ret)
            except E.Fork:
                bad.append(f'{nval}: result not decided by the interpreter')
                continue
            if 1 <= nval <= len(names):
                okv = r[0] == 'enum' and r[2] == 'Ok' and r[4] and r[4][0][0] == 'enum' and r[4][0][2] == names[nval - 1]
            else:
                okv = r[0] == 'enum' and r[2] == 'Err'
            if not okv:
                bad.append(f'{nval} -> {show(r, maxd=3)[:40]}')
        rep.ob('R17.10', f'{ename}:try_from', not bad, f'try_from(n) is the variant numbered n for n in 1..={len(names)}, Err otherwise'
               if not bad else f'table disagrees with the declaration: {bad[:4]}')


def display_wiring(ctx, rep, disp, role):
    """R17.13 Display prints weekday, month, day, year, era in this order, the era chosen by the before-Hijra flag"""
    eng = ctx.engine()
    argsets = []

    def hook(eng_, st, fr, t, name, args):
        if name.endswith('Arguments::<\'a>::new') or 'Arguments' in name and last_seg(name).startswith('new'):
            argsets.append([eng_.purify(st, a) for a in args])
        return None
    eng.hooks['call'] = hook
    tree = eng.call_entry(disp, eng.sym_args(disp, ['self', 'f']))
    arr = None
    for a in argsets:
        for x in a:
            if isinstance(x, tuple) and x and x[0] == 'array' and len(x[1]) == 5:
                arr = x[1]
    if arr is None:
        rep.ob('R17.13', 'display-arguments', None, 'format arguments of Display not recognised')
        return
    SELF = ('param', 'self')

    def reads(t):
        return {x[2] for x in subterms(t) if x and x[0] == 'field' and x[1] == SELF}
    want = [role['day_of_week'], role['month'], role['day'], role['year'], role['pre_epoch']]
    got = [sorted(reads(x)) for x in arr]
    ok = all(g == [w] for g, w in zip(got, want))
    rep.ob('R17.13', 'display-order', ok, 'Display prints weekday, month, day, year, era' if ok else
           f'Display arguments read {got}, expected {want}')
    era = arr[4]
    inner = era[2][0] if era[0] == 'app' and era[2] else era
    oke = None
    if inner[0] == 'ite':
        c, a, b = inner[1], inner[2], inner[3]
        if c == ('field', SELF, role['pre_epoch']) and is_const(a) and is_const(b):
            oke = cval(a) == 'B.H.' and cval(b) == 'A.H.'
            detail = f'era is "{cval(a)}" before the Hijra and "{cval(b)}" after'
    rep.ob('R17.13', 'display-era', oke, detail if oke is not None else f'era argument not recognised: {show(inner, maxd=3)[:80]}')
    for i, (acc, names) in enumerate((('day_of_week', DAYS), ('month', MONTHS))):
        inner = arr[i][2][0] if arr[i][0] == 'app' and arr[i][2] else arr[i]
        fieldt = ('field', SELF, role[acc])
        bad = []
        und = False
        for nval in range(1, len(names) + 1):
            v = value_at(inner, {fieldt: nval})
            if v is None:
                und = True
            elif not (v[0] == 'enum' and v[2] == names[nval - 1]):
                bad.append(f'{nval} prints {v[2] if v[0] == "enum" else show(v, maxd=2)[:30]}')
        rep.ob('R17.13', f'display-{acc}', False if bad else (None if und else True),
               f'{acc}: field value n prints the variant numbered n' if not bad and not und else
               (f'{acc}: {bad[:3]}' if bad else f'{acc}: printed value not evaluable: {show(inner, maxd=3)[:100]}'))


def value_at(t, env):
    """the term with every decidable condition / constant index resolved after substituting integer values for terms"""
    while isinstance(t, tuple) and t:
        if t[0] == 'ite':
            c = eval_cond(t[1], env)
            if c is None:
                return None
            t = t[2] if c else t[3]
            continue
        if t[0] == 'elem':
            arr = t[1]
            idx = eval_num(t[2], env)
            if arr[0] in ('array', 'vec') and idx is not None and 0 <= int(idx) < len(arr[1]):
                t = arr[1][int(idx)]
                continue
            return None
        return t
    return t


def eval_num(t, env):
    r = eval_cond(('bin', 'Eq', t, t), env)   # evaluability test
    if r is None:
        return None
    # reuse the evaluator through a comparison ladder is wasteful: evaluate directly
    return _val(t, env)


def construction(ctx, rep, HD, frm):
    """R17.12 the struct is built only by From<NaiveDate> (and copied by derives)"""
    sites = []
    for p, b in ctx.lib.bodies.items():
        if b.kind not in ('Fn', 'AssocFn', 'Closure'):
            continue
        for bi, si, s in b.assigns():
            rv = s['rv']
            if rv['k'] == 'agg' and isinstance(rv['agg'], dict) and rv['agg'].get('adt') == HD:
                sites.append((p, b.derived))
    others = [p for p, d in sites if p != frm and not d]
    rep.ob('R17.12', 'constructed-only-by-from', not others, 'HijriDate values are built only by From<NaiveDate> (fields are private)' if not others
           else f'HijriDate is also built in {others[:3]}')
    rep.floor('HijriDate construction sites', len([1 for p, d in sites if p == frm]), 1)


def failure_sites(ctx, rep, frm, disp, ood):
    """R17.11 inventory of failure sites reachable from conversion, accessors and printing"""
    lib = ctx.lib
    roots = [frm, disp] + [ctx.pub_fn(a, 'HijriDate') for a in ('month', 'day_of_week')]
    reach = set()
    for r in roots:
        reach |= {p for p in lib.reachable_from(r) if p in lib.bodies}
    sites = c07.static_sites(ctx, reach)
    n_unwrap = 0
    arith = 0
    for (p, bi, cls, n) in sites:
        key = f'{last_seg(p)}:{cls}:{last_seg(n)}'
        where = lib.bodies[p].blocks[bi]['term'].get('span')
        if cls == 'unwrap':
            n_unwrap += 1
            fn = last_seg(p)
            if p == ctx.pub_fn('day_of_week', 'HijriDate'):
                rep.ob('R17.11', key, True, 'weekday field is in 1..=7 (R17.8) and try_from is total on it (R17.10); only From builds the value (R17.12)', where=where)
            elif p == ctx.pub_fn('month', 'HijriDate'):
                rep.ob('R17.11', key, True, 'month field is 1..=12 provided the searches and month lengths agree with the day-number formula '
                       '(R17.2-R17.6): the month search stops at the twelfth month because its last day is the last day of the year', where=where)
            elif ood.get((p, bi)) is True:
                rep.ob('R17.11', key, True, 'fails only on paths that require year() < 1: outside the quantified range (common era)', where=where)
            else:
                rep.ob('R17.11', key, None, 'failure site outside day_of_week()/month() not discharged', where=where)
        elif cls.startswith('assert') or cls == 'panicky-api':
            arith += 1
        else:
            rep.ob('R17.11', key, None, f'failure site of class {cls} not discharged', where=where)
    rep.note(f'{arith} arithmetic overflow / division checks in the calendar code are not decided (day numbers stay below 3.7e6, years below 1e4)')
    rep.floor('unwrap sites in conversion/printing', n_unwrap, 2)
