"""C01 - Dhuhr is the instant of local apparent solar noon (partial: structural clauses)."""
from ..context import SIX
from .. import engine as E
from ..terms import show, subterms
from . import conv as CV
from . import worlds as W
from . import modular
from . import julian


def run(ctx, rep, pid='C01'):
    # the reported time is a function of the request alone: a cache or other hidden state on the computation path makes it depend on what was
    # computed before (C20's R20.5) - the same place and date, asked with another school, angle or weather, would get the earlier answer
    from . import shared, c20 as _c20h
    shared.include(ctx, rep, _c20h.run, {'R20.5'}, why='no thread-local, static or lock-protected state on the computation path')
    rep.explanation = (
        'Decides three structural clauses: Dhuhr is always reported (typestate over every outcome and every skeleton world), '
        'modular-angle hygiene of every difference of wrapped angles (R1.2, shared with C13), and independence of Dhuhr from '
        'method parameters and weather. The 10-second agreement with an independent ephemeris is numeric: not decided.')
    rep.trusted = ['rustc MIR', 'the Sun\'s right ascension moves < 1.2 deg/day']
    c = CV.get(ctx)
    if pid == 'C01':
        v = c.values.get('Dhuhr')
        ok = v is not None and v[0] == 'enum' and v[2] == 'Ok'
        rep.ob('R1.1', 'Dhuhr:conventional-always-Ok', ok, f'Dhuhr entry: {show(v, maxd=2)[:80]}')
        pa = W.get(ctx, rep)
        bad = [w for w in pa.worlds if w.final and w.final.get('Dhuhr', ('?',))[0] != 'Ok']
        rep.ob('R1.1', 'Dhuhr:valid-in-every-world', not bad, f'{len(pa.worlds)} worlds, {len(bad)} end with an invalid Dhuhr',
               world=bad[0].describe() if bad else None)
        rep.floor('worlds', len(pa.worlds), 400)
        if ok:
            d = v[4][0]
            reads = CV.param_reads(d)
            rep.ob('R1.3', 'Dhuhr:no-method-parameter', not reads, f'Dhuhr depends on params fields: {sorted(reads)}' if reads else
                   'no params.* atom in the Dhuhr term')
            hw = CV.has_atom(d, ('param', 'weather'))
            rep.ob('R1.3', 'Dhuhr:no-weather', not hw, 'no weather atom in the Dhuhr term' if not hw else 'Dhuhr depends on weather')
            rep.sample({'Dhuhr': show(d, maxd=7)[:500]})
            # R1.5 constants of the transit computation (Meeus ch. 15): hours per day, degrees per turn, sidereal rate
            from .common import const_f64
            consts = sorted({const_f64(x) for x in subterms(d) if const_f64(x) is not None})
            top = d[2] if d[0] == 'bin' and d[1] == 'Mul' and const_f64(d[2]) is not None else (d[3] if d[0] == 'bin' and d[1] == 'Mul' else None)
            rep.ob('R1.5', 'hours-per-day', top is not None and const_f64(top) == 24.0, f'day fraction is scaled by {show(top) if top else None} (24 h)')
            sid = [k for k in consts if 360.5 < k < 361.5]
            rep.ob('R1.5', 'sidereal-rate', len(sid) == 1 and abs(sid[0] - 360.985647) < 1e-4,
                   f'sidereal rotation per day {sid} (360.985647 deg)')
            rep.ob('R1.5', 'degrees-per-turn', 360.0 in consts, f'constants used: {consts}')
    modular.check(ctx, rep, c)
    if pid == 'C01':
        julian.check(ctx, rep, 'R1.4')
    # Dhuhr is reported only if its clock-time conversion cannot fail (R11.4, R11.7)
    from . import shared, c11 as _c11
    # the property is stated for unrounded seconds: in mode `None` the converter must hand the seconds through untouched (the `None` row of
    # C11's action table, for this property's own times); the other rows of the table are C11's alone
    shared.include(ctx, rep, _c11.run, {'R11.1', 'R11.3', 'R11.4', 'R11.7'},
                   keys=lambda key: key.count(':') >= 2 or key in ('None:Dhuhr',),
                   why='every reported hour becomes a valid clock time (minutes from the same hour, wraps, bounded operands); '
                       'unrounded seconds (mode None) are reported as computed')

    # the Julian Day of local midnight: the GMT offset enters as exactly -gmt/24 days (R20.1) - an offset quantised to minutes or
    # hours shifts the instant for which the transit is solved
    from . import c20 as _c20
    shared.include(ctx, rep, _c20.run, {'R20.1'}, why='the transit is solved for the instant the GMT offset designates')
