"""C08 - fallback policies change only what they name and flag exactly what they replace.

Decided exhaustively on the skeleton abstraction: every world = (policy, initial
validity pattern of the six conventional cells, free conditions).  The
conventional baseline of a world is the same world under policy `None`.
"""
from ..context import SIX
from .. import engine as E
from . import worlds as W
from ..terms import show

INTERVAL_CONSUMERS_PREFIX = ('HalfOfNight', 'MinutesFromMaghribFajrIshaInvalid')


def consumes_intervals(policy):
    return policy.startswith('HalfOfNight') or policy == 'MinutesFromMaghribFajrIshaInvalid'


def run(ctx, rep):
    rep.explanation = (
        'Exhaustive over the finite skeleton abstraction of the policy layer: 15 policies x 16 feasible initial validity '
        'patterns x all data-dependent branch outcomes (numeric values abstracted to provenance terms). Checked per world: '
        'scope (R8.1), invalid-gate identity measured against the same world under policy None (R8.2), flag/replacement '
        'agreement (R8.3). Numeric equality of replaced values is C10\'s subject.')
    rep.trusted = ['rustc MIR', 'HashMap/RefCell/Result models (analysis/models.py)', W.policy.FEASIBLE_NOTE]
    table = W.classify_policies(ctx)
    pa = W.get(ctx, rep)
    rep.floor('policy variants', len(table), 15)
    rep.floor('worlds', len(pa.worlds), 400)
    rep.extra['worlds'] = len(pa.worlds)
    rep.extra['interpreter_steps'] = pa.steps
    rep.extra['exhaustive'] = True
    if pa.incomplete:
        rep.ob('engine', 'incomplete', None, f'abstraction bound reached: {pa.incomplete[:3]}')
    bypol = {}
    for w in pa.worlds:
        bypol.setdefault(w.policy, []).append(w)
    for v in table:
        rep.ob('coverage', f'policy:{v}', bool(bypol.get(v)), f'{len(bypol.get(v, []))} worlds')
    if None in bypol:
        # worlds in which the policy was never consulted
        rep.ob('coverage', 'policy-free-worlds', False, f'{len(bypol[None])} worlds never read the policy')
    n_exempt = 0
    ict = W.interval_cond_terms(pa)
    rep.floor('interval conditions found', len(ict), 2)
    for w in pa.worlds:
        if w.policy is None:
            continue
        scope, gate = table[w.policy]
        if w.final is None or set(w.final) != set(SIX):
            rep.ob('R8.0', f'{w.policy}:keys', False, f'final map does not have the six keys: {w.final and sorted(w.final)}',
                   world=w.describe())
            continue
        ic = W.interval_conds(w.asm)
        interval_method = any(z is False for z in ic.values())
        exempt_interval = consumes_intervals(w.policy) and interval_method
        if exempt_interval:
            n_exempt += 1
        asm = dict(w.asm)
        if consumes_intervals(w.policy) and not interval_method:
            # the property quantifies these policies over angle-based methods only
            for kk, term in ict.items():
                asm.setdefault(term, True)
        fin = {k: W.cell_under(w.final[k], asm) for k in SIX}
        # ---- R8.1 scope
        if scope == 'fajr_isha':
            for k in ('Shurooq', 'Dhuhr', 'Asr', 'Maghrib'):
                ok = fin[k] == W.initial_cell(w, k)
                rep.ob('R8.1', f'{w.policy}:{k}', ok,
                       'untouched' if ok else f'a Fajr/Isha-only policy changed {k}: {W.show_cell(W.initial_cell(w, k))} -> {W.show_cell(fin[k])}',
                       world=w.describe())
        if scope == 'none':
            continue
        # ---- R8.2 gate
        if gate == 'invalid' and not exempt_interval:
            if all(w.pattern[k] for k in SIX):
                for k in SIX:
                    base = W.baseline(pa, w, k, asm=asm)
                    ok = None if not base else all(fin[k] == b for b in base)
                    rep.ob('R8.2', f'{w.policy}:identity:{k}', ok,
                           'identity on a day where all times exist' if ok else
                           f'{k} changed although every time exists: {W.show_cell(fin[k])} vs conventional {[W.show_cell(b) for b in base]}',
                           world=w.describe())
            if w.policy != 'AngleBased':
                for k in ('Fajr', 'Isha'):
                    if not w.pattern[k]:
                        continue
                    base = W.baseline(pa, w, k, asm=asm)
                    ok = None if not base else all(fin[k] == b for b in base)
                    rep.ob('R8.2', f'{w.policy}:valid-{k}-kept', ok,
                           'conventionally valid time returned unchanged and unflagged' if ok else
                           f'valid {k} was changed by an only-if-invalid policy: {W.show_cell(fin[k])} vs {[W.show_cell(b) for b in base]}',
                           world=w.describe())
        # ---- R8.3 flags
        if w.policy.startswith('HalfOfNight') or exempt_interval:
            continue
        for k in SIX:
            c = fin[k]
            base = W.baseline(pa, w, k, asm=asm)
            if not base:
                rep.ob('R8.3', f'{w.policy}:{k}:baseline', None, 'no conventional twin world', world=w.describe())
                continue
            if c[0] != 'Ok':
                continue
            # a cell still joined over conditions (a clamp, a match on another entry) is judged case by case
            for case_asm, cc in ([({}, c)] if c[2] in (E.TRUE, E.FALSE) else W.cell_cases_asm(c, flag_only=True)):
                val, flag = cc[1], cc[2]
                cbase = [W.cell_under(b, case_asm) for b in base] if case_asm else base
                same_as_conv = all(b[0] == 'Ok' and b[1] == val for b in cbase)
                if flag == E.FALSE and not same_as_conv and ic.get(k) is False and W.interval_provenance(fin, k, val):
                    rep.ob('R8.3', f'{w.policy}:{k}:interval-definition-kept', True,
                           'the interval definition of the method re-applied to this world\'s Shurooq/Maghrib (C10 R10.3)')
                elif flag == E.FALSE:
                    rep.ob('R8.3', f'{w.policy}:{k}:unflagged-is-conventional', same_as_conv,
                           'unflagged time equals the conventional time' if same_as_conv else
                           f'{k} is not flagged extreme but differs from the conventional time: {W.show_cell(cc)} vs {[W.show_cell(b) for b in cbase][:2]}',
                           world=w.describe())
                elif flag == E.TRUE:
                    rep.ob('R8.3', f'{w.policy}:{k}:flagged', True, 'flagged')
                else:
                    rep.ob('R8.3', f'{w.policy}:{k}:flag-unknown', None, f'flag is {show(flag)[:80]}', world=w.describe())
    rep.extra['worlds_exempt_interval_methods'] = n_exempt
    # outcomes of the policy layer that ended in a failure (an index with a key the interpreter could not resolve, an unwrap) have no
    # final cells: nothing above was decided for them.  The failure itself is C07's finding; here it is a gap, not a verdict.
    lost = {}
    for e in pa.panics:
        lost[str(e.get('info'))[:80]] = lost.get(str(e.get('info'))[:80], 0) + 1
    for k_, n_ in sorted(lost.items()):
        rep.ob('R8.0', 'outcomes-without-final-cells', None, f'{n_} outcome(s) of the policy layer end in a failure ({k_}): scope, gate and flags '
               'are not decided for them')
    for w in pa.worlds[:: max(1, len(pa.worlds) // 12)]:
        rep.sample({'world': w.describe(), 'final': {k: W.show_cell(v) for k, v in (w.final or {}).items()}})
