"""Julian Day structure (mechanism of C01 / C13): within a recognised Meeus-style computation the Gregorian century
correction must be taken from the same (January/February-shifted) year as the day count.  Not recognised => undecided."""
from .. import engine as E
from ..terms import show, subterms
from .common import const_f64
from ..context import AnchorLost


def check(ctx, rep, rule='R13.2'):
    dt = ctx.role('dt')
    # role: the local function called from prayer_times_dt with (date, gmt) whose result feeds the ephemeris constructor
    from ..facts import callee_name
    cands = []
    for n in ctx.reach(dt):
        b = ctx.lib.bodies.get(n)
        if b is not None and b.kind in ('Fn', 'AssocFn') and b.arg_count == 2 and b.locals[1]['s'] == 'chrono::NaiveDate' and \
                b.locals[0].get('adt') in ctx.lib.adts and (b.locals[2].get('adt') or '').endswith('Gmt'):
            cands.append(n)
    if len(set(cands)) != 1:
        rep.ob(rule, 'julian-day-constructor', None, f'constructor not identified: {cands}')
        return
    jd = cands[0]
    eng = ctx.engine()
    tree = eng.call_entry(jd, [('param', 'date'), ('param', 'gmt')])
    lv = list(E.leaves_of(tree))
    if len(lv) != 1:
        rep.ob(rule, 'julian-day-term', None, f'{len(lv)} outcomes')
        return
    ret = lv[0].ret
    ys = set()
    for x in subterms(ret):
        if x and x[0] == 'app' and x[1] == 'floor':
            a = x[2][0]
            if a[0] == 'bin' and a[1] == 'Mul':
                for k, y in ((a[2], a[3]), (a[3], a[2])):
                    if const_f64(k) == 365.25 and y[0] == 'bin' and y[1] == 'Add' and const_f64(y[3]) == 4716.0:
                        ys.add(y[2])
    cents = set()
    for x in subterms(ret):
        if x and x[0] == 'app' and x[1] == 'floor':
            a = x[2][0]
            if a[0] == 'bin' and a[1] == 'Div' and const_f64(a[3]) == 100.0:
                cents.add(a[2])
        if x and x[0] == 'cast' and x[2][0] == 'bin' and x[2][1] == 'Div' and const_f64(x[2][3]) == 100.0:
            cents.add(x[2][2])
    if len(ys) != 1 or len(cents) != 1:
        rep.ob(rule, 'meeus-structure', None, f'Meeus day-count / century terms not recognised ({len(ys)} / {len(cents)})')
        return
    Y = next(iter(ys))
    X = next(iter(cents))
    def strip(t):
        while isinstance(t, tuple) and t and t[0] == 'cast':
            t = t[2]
        return t
    ok = strip(X) == strip(Y)
    rep.ob(rule, 'century-from-shifted-year', ok,
           'the Gregorian century correction uses the same January/February-shifted year as the day count' if ok else
           f'century correction is taken from {show(X, maxd=4)[:80]} but the day count uses {show(Y, maxd=4)[:80]}: '
           'January/February of century years get the wrong correction (Julian Day off by one)')
    dep_month = any(z and z[0] == 'app' and z[1].endswith('Datelike>::month') for z in subterms(Y))
    rep.ob(rule, 'year-shift-depends-on-month', dep_month, 'the year used for the day count is shifted for January/February'
           if dep_month else 'the day-count year does not depend on the month')
    rep.sample({'julian-day year term': show(Y, maxd=5)[:200]})
