"""Julian Day structure (mechanism of C01 / C13): within a recognised Meeus-style computation the Gregorian century
correction must be taken from the same (January/February-shifted) year as the day count.  Not recognised => undecided."""
from .. import engine as E
from ..terms import show, subterms
from .common import const_f64
from ..context import AnchorLost


def check(ctx, rep, rule='R13.2'):
    dt = ctx.role('dt')
    # role: the local function called from prayer_times_dt with (date, gmt) whose result feeds the ephemeris constructor
    from ..facts import callee_name
    cands = []
    for n in ctx.reach(dt):
        b = ctx.lib.bodies.get(n)
        if b is not None and b.kind in ('Fn', 'AssocFn') and b.arg_count == 2 and b.locals[1]['s'] == 'chrono::NaiveDate' and \
                b.locals[0].get('adt') in ctx.lib.adts and (b.locals[2].get('adt') or '').endswith('Gmt'):
            cands.append(n)
    if len(set(cands)) != 1:
        rep.ob(rule, 'julian-day-constructor', None, f'constructor not identified: {cands}')
        return
    jd = cands[0]
    eng = ctx.engine()
    tree = eng.call_entry(jd, [('param', 'date'), ('param', 'gmt')])
    lv = list(E.leaves_of(tree))
    if len(lv) != 1:
        rep.ob(rule, 'julian-day-term', None, f'{len(lv)} outcomes')
        return
    ret = lv[0].ret
    ys = set()
    for x in subterms(ret):
        if x and x[0] == 'app' and x[1] == 'floor':
            a = x[2][0]
            if a[0] == 'bin' and a[1] == 'Mul':
                for k, y in ((a[2], a[3]), (a[3], a[2])):
                    if const_f64(k) == 365.25 and y[0] == 'bin' and y[1] == 'Add' and const_f64(y[3]) == 4716.0:
                        ys.add(y[2])
    cents = set()
    for x in subterms(ret):
        if x and x[0] == 'app' and x[1] == 'floor':
            a = x[2][0]
            if a[0] == 'bin' and a[1] == 'Div' and const_f64(a[3]) == 100.0:
                cents.add(a[2])
        if x and x[0] == 'cast' and x[2][0] == 'bin' and x[2][1] == 'Div' and const_f64(x[2][3]) == 100.0:
            cents.add(x[2][2])
        if x and x[0] == 'app' and x[1].endswith('::div_euclid') and len(x[2]) == 2 and const_f64(x[2][1]) == 100.0:
            cents.add(x[2][0])
    if len(ys) != 1 or len(cents) != 1:
        rep.ob(rule, 'meeus-structure', None, f'Meeus day-count / century terms not recognised ({len(ys)} / {len(cents)})')
        return
    Y = next(iter(ys))
    X = next(iter(cents))
    def strip(t):
        while isinstance(t, tuple) and t and t[0] == 'cast':
            t = t[2]
        return t
    ok = strip(X) == strip(Y)
    rep.ob(rule, 'century-from-shifted-year', ok,
           'the Gregorian century correction uses the same January/February-shifted year as the day count' if ok else
           f'century correction is taken from {show(X, maxd=4)[:80]} but the day count uses {show(Y, maxd=4)[:80]}: '
           'January/February of century years get the wrong correction (Julian Day off by one)')
    dep_month = any(z and z[0] == 'app' and z[1].endswith('Datelike>::month') for z in subterms(Y))
    rep.ob(rule, 'year-shift-depends-on-month', dep_month, 'the year used for the day count is shifted for January/February'
           if dep_month else 'the day-count year does not depend on the month')
    rep.sample({'julian-day year term': show(Y, maxd=5)[:200]})

    # ---- the whole Meeus formula: JD = B + floor(365.25 (Y + 4716)) + floor(30.6001 (M + 1)) + D - 1524.5 with
    #      B = 2 - A + floor(A / 4), A = floor(Y / 100) after 1582-10-15 and B = 0 before; D = day - gmt / 24
    from .. import formula as F
    from .. import domains as D
    Ms = set()
    for x in subterms(ret):
        if x and x[0] == 'app' and x[1] == 'floor':
            a = x[2][0]
            if a[0] == 'bin' and a[1] == 'Mul':
                for k, y in ((a[2], a[3]), (a[3], a[2])):
                    if const_f64(k) is not None and abs(const_f64(k) - 30.6001) < 1e-9 and y[0] == 'bin' and y[1] == 'Add' and const_f64(y[3]) == 1.0:
                        Ms.add(y[2])
    vals = [x for x in (ret[4] if ret[0] == 'enum' else ()) if isinstance(x, tuple)]
    a_adt = ctx.lib.adts.get(ret[1]) if ret[0] == 'enum' else None
    value = None
    if a_adt:
        for f, v in zip(a_adt['variants'][0]['fields'], ret[4]):
            if f['ty']['s'] == 'f64':
                value = v
    days = [x for x in subterms(ret) if x and x[0] == 'app' and x[1].endswith('Datelike>::day')]
    gmts = [x for x in subterms(ret) if x and x[0] == 'field' and x[1] == ('param', 'gmt')]
    if len(Ms) != 1 or value is None or not days or not gmts:
        rep.ob(rule, 'meeus-formula', None, 'month term / value field / day / gmt operand not identified')
        return
    Mt = next(iter(Ms))
    K = lambda v: E.C('f64', float(v))
    fl = lambda t: ('app', 'floor', (t,))
    A = fl(('bin', 'Div', Y, K(100)))
    Bg = ('bin', 'Add', ('bin', 'Sub', K(2), A), fl(('bin', 'Div', A, K(4))))
    Dd = ('bin', 'Sub', days[0], ('bin', 'Div', gmts[0], K(24)))

    def ref(greg):
        t = ('bin', 'Add', fl(('bin', 'Mul', K(365.25), ('bin', 'Add', Y, K(4716)))), fl(('bin', 'Mul', K(30.6001), ('bin', 'Add', Mt, K(1)))))
        t = ('bin', 'Add', t, Dd)
        t = ('bin', 'Sub', t, K(1524.5))
        return ('bin', 'Add', Bg, t) if greg else t
    # the Gregorian test is whatever condition selects between a correction and none: decide every case of the value's conditions
    conds = [c for c in D.ite_conds(value) if not any(z == Y or z == Mt for z in (c,))]
    conds = [c for c in conds if c not in D.ite_conds(Y) and c not in D.ite_conds(Mt)]
    import itertools
    verdicts = set()
    detail = ''
    n = 0
    for bits in itertools.product([True, False], repeat=min(len(conds), 5)):
        v = E.specialise(value, dict(zip(conds, bits)))
        n += 1
        best = None
        for greg in (True, False):
            cn = F.Canon()
            r1 = F.compare_polys(cn.cf(ref(greg)), cn.cf(v))
            if r1 == 'equal':
                best = 'equal'
                break
            cn2 = F.Canon(trunc_as_floor=True)
            r2 = F.compare_polys(cn2.cf(ref(greg)), cn2.cf(v))
            if r2 == 'equal':
                best = 'truncation'
                detail = ('a term that must be floored is truncated toward zero by an integer cast; it is negative for most centuries, so '
                          'the Julian Day is one day late there')
            elif best is None and 'different' in (r1, r2):
                best = 'different'
                detail = f'Julian Day is {F.show_poly(cn.cf(v), show)[:260]}'
        verdicts.add(best)
    if verdicts == {'equal'}:
        rep.ob(rule, 'meeus-formula', True, f'the Julian Day is the Meeus formula in all {n} cases of its conditions')
    elif 'truncation' in verdicts or 'different' in verdicts:
        rep.ob(rule, 'meeus-formula', False, detail)
    else:
        rep.ob(rule, 'meeus-formula', None, 'the Julian Day is written with other operations than the reference formula: not decided')
