"""C20 - clock times are consistent across time zones and meridians (sign / scale structure only).

The 10-second agreement is a numeric relation between outputs and is NOT decided.  Decided are necessary conditions
visible in the code: how the GMT offset and the longitude enter.

  R20.1  the Julian Day is linear in the GMT offset with coefficient exactly -1/24 (and +1 in the day of the month):
         local midnight is gmt/24 days before midnight UT.
  R20.2  the GMT offset is converted to a number only inside the Julian-Day constructor (it enters nowhere else).
  R20.3  in every linear form of the time computation that contains the longitude together with the sidereal time and
         the right ascension (transit fraction, hour angles, topocentric hour angle), the longitude has the sign of the
         sidereal time, the opposite sign of the right ascension, and the same magnitude (degrees to degrees):
         local hour angle = sidereal time + east longitude - right ascension.
"""
from ..context import AnchorLost, last_seg
from ..facts import callee_name
from .. import engine as E
from ..engine import intern
from .. import domains as D
from .. import formula as F
from ..terms import show, subterms
from .common import const_f64

SIDEREAL_RATE = 360.98564736629


def jd_ctor(ctx):
    dt = ctx.role('dt')
    cands = []
    for n in ctx.reach(dt):
        b = ctx.lib.bodies.get(n)
        if b is not None and b.kind in ('Fn', 'AssocFn') and b.arg_count == 2 and b.locals[1]['s'] == 'chrono::NaiveDate' and \
                b.locals[0].get('adt') in ctx.lib.adts and (b.locals[2].get('adt') or '').endswith('Gmt'):
            cands.append(n)
    if len(set(cands)) != 1:
        raise AnchorLost('Julian-Day constructor', str(cands))
    return cands[0]


def ephemeris_roles(ctx):
    """(element ADT, sidereal-time field, right-ascension field) from the structure of the per-day ephemeris constructor"""
    lib = ctx.lib
    et = ctx.role('eph_type')
    elem = None
    import re
    cands = set()
    for f in lib.adts[et]['variants'][0]['fields']:
        ty = f['ty']
        if ty.get('adt') in lib.adts:
            continue
        # a container (Vec<X>, [X; n], ...) of a library type
        for name in re.findall(r'[A-Za-z_][A-Za-z_0-9:]*', ty['s']):
            if name in lib.adts:
                cands.add(name)
    if len(cands) != 1:
        raise AnchorLost('ephemeris element type', str(sorted(cands)))
    elem = next(iter(cands))
    ctors = [p for p, b in lib.bodies.items() if b.kind in ('Fn', 'AssocFn') and not b.derived and b.arg_count == 1 and
             b.locals[1]['s'] == 'f64' and b.locals[0].get('adt') == elem]
    if len(ctors) != 1:
        raise AnchorLost('per-day ephemeris constructor', str(ctors))
    eng = ctx.engine()
    tree = eng.call_entry(ctors[0], [('param', 'jd')])
    lv = list(E.leaves_of(tree))
    if len(lv) != 1 or lv[0].ret[0] != 'enum':
        raise AnchorLost('per-day ephemeris value')
    r = lv[0].ret
    sid = ra = None
    norm = set(ctx.role('normalisers'))
    for f, v in zip(lib.adts[elem]['variants'][0]['fields'], r[4]):
        if any(x and x[0] == 'c' and const_f64(x) is not None and abs(const_f64(x) - SIDEREAL_RATE) < 1e-9 for x in subterms(v)):
            sid = f['name'] if sid is None else '?'
        head = v
        while head[0] == 'app' and (head[1] in norm or head[1] == 'to_degrees') and head[2]:
            head = head[2][0]
        if head[0] == 'app' and head[1] == 'atan2' and v[0] == 'app' and v[1] in norm:
            ra = f['name'] if ra is None else '?'
    if sid in (None, '?') or ra in (None, '?'):
        raise AnchorLost('sidereal-time / right-ascension fields', f'{sid} / {ra}')
    return elem, sid, ra, ctors[0]


def run(ctx, rep):
    rep.explanation = (
        'Necessary conditions of the time-zone / meridian covariance that are visible in the code: the Julian Day is linear in the GMT '
        'offset with coefficient -1/24; the GMT offset is turned into a number only there; every linear form that combines longitude, '
        'sidereal time and right ascension is (sidereal + longitude - RA) up to an overall factor. The 10-second agreement, the validity '
        'clause and the effect of the ephemeris itself are numeric relations between outputs and are not decided.')
    rep.trusted = ['rustc MIR', 'east longitudes are positive (public API of Longitude)', 'Meeus: local hour angle = sidereal + east longitude - RA']
    lib = ctx.lib
    cn = F.Canon()
    # ---- R20.1 -------------------------------------------------------------------------------------------------
    jd = jd_ctor(ctx)
    eng = ctx.engine()
    tree = eng.call_entry(jd, [('param', 'date'), ('param', 'gmt')])
    lv = list(E.leaves_of(tree))
    rep.ob('R20.1', 'single-outcome', len(lv) == 1, f'{len(lv)} outcomes of the Julian-Day constructor')
    n_cases = 0
    if len(lv) == 1 and lv[0].ret[0] == 'enum':
        r = lv[0].ret
        a = lib.adts[r[1]]
        vals = [v for f, v in zip(a['variants'][0]['fields'], r[4]) if f['ty']['s'] == 'f64']
        if len(vals) != 1:
            rep.ob('R20.1', 'value-field', None, f'{len(vals)} f64 fields in the Julian-Day type')
        else:
            val = vals[0]
            conds = [c for c in D.ite_conds(val) if not any(x == ('param', 'gmt') for x in subterms(c))]
            import itertools
            bad = []
            for bits in itertools.product([True, False], repeat=min(len(conds), 6)):
                v = E.specialise(val, dict(zip(conds, bits)))
                p = cn.cf(v)
                cg = cd = None
                other = []
                for m, c in p.items():
                    if any(a_[0] == 'p' and any(x == ('param', 'gmt') for x in subterms(a_[1])) for a_ in m) or \
                            any(a_[0] != 'p' and 'gmt' in repr(a_)[:0] for a_ in m):
                        if len(m) == 1 and m[0][0] == 'p':
                            cg = c if cg is None else '?'
                        else:
                            other.append(m)
                    if len(m) == 1 and m[0][0] == 'p' and m[0][1][0] == 'app' and m[0][1][1].endswith('Datelike>::day'):
                        cd = c
                n_cases += 1
                if other or cg in (None, '?'):
                    # gmt inside a non-linear atom (floor, ...) or absent
                    inside = any(any(x == ('param', 'gmt') for x in subterms_of_atoms(m)) for m in p)
                    bad.append(f'GMT offset {"enters non-linearly" if inside and cg is None else "does not enter" if cg is None else "enters twice"}')
                elif abs(cg + 1.0 / 24.0) > 1e-12:
                    bad.append(f'coefficient of the GMT offset is {cg:.6g} (expected -1/24 = {-1/24:.6g})')
                elif cd is not None and abs(cd - 1.0) > 1e-12:
                    bad.append(f'day of month enters with coefficient {cd:g}')
            bad = sorted(set(bad))
            rep.ob('R20.1', 'gmt-coefficient', not bad, 'Julian Day = ... + day - gmt/24: local midnight is gmt/24 days before midnight UT' if not bad
                   else '; '.join(bad[:3]), where=lib.bodies[jd].span)
    rep.floor('Julian-Day cases', n_cases, 1)

    # ---- R20.2 -------------------------------------------------------------------------------------------------
    gmt_adt = ctx.adt('Gmt')
    conv = [p for p, b in lib.bodies.items() if b.kind == 'AssocFn' and (b.impl_of or {}).get('trait') == 'std::convert::From' and
            (b.impl_of or {}).get('self_ty') == 'f64' and b.arg_count == 1 and b.locals[1].get('adt') == gmt_adt]
    if len(conv) != 1:
        rep.ob('R20.2', 'gmt-conversion', None, f'{len(conv)} conversions Gmt -> f64')
    else:
        users = []
        for p in ctx.reach(ctx.role('dt')):
            b = lib.bodies.get(p)
            if b is None or b.derived:
                continue
            for _, t in b.calls():
                n = callee_name(t) or ''
                res = (t.get('callee') or {}).get('resolved') or ''
                if n == conv[0] or res == conv[0]:
                    users.append(p)
        rep.floor('numeric uses of the GMT offset', len(users), 1)
        others = sorted(set(u for u in users if u != jd))
        rep.ob('R20.2', 'gmt-only-in-julian-day', not others, 'the GMT offset is turned into a number only by the Julian-Day constructor'
               if not others else f'the GMT offset is also used numerically in {others[:3]}: times shift twice / differently')

    # ---- R20.5 the result is a function of the arguments: no thread-local / static state on the computation path -----
    STATEFUL = ('std::thread::LocalKey', 'std::sync::OnceLock', 'std::sync::LazyLock', 'std::cell::OnceCell', 'std::sync::Mutex',
                'std::sync::RwLock', 'std::sync::atomic::', 'std::sync::Once::')
    stateful = []
    n_fn = 0
    for p in sorted(ctx.reach(ctx.role('dt'))):
        b = lib.bodies.get(p)
        if b is None or b.derived:
            continue
        n_fn += 1
        for _, t in b.calls():
            n = callee_name(t) or ''
            if any(k in n for k in STATEFUL):
                stateful.append((p, n))
        for blk in b.blocks:
            for st_ in blk['stmts']:
                if st_['k'] == 'assign' and '"static"' in str(st_['rv']).replace("'", '"'):
                    stateful.append((p, 'static item'))
    rep.floor('functions of the computation examined for hidden state', n_fn, 20)
    rep.ob('R20.5', 'no-hidden-state', not stateful, 'no thread-local, static or lock-protected state is touched by the computation' if not stateful
           else f'{last_seg(stateful[0][0])} uses {stateful[0][1]}: the result depends on earlier calls, not only on the arguments '
           '(two calls that differ in the GMT offset can share a cached value)')
    # ---- R20.3 -------------------------------------------------------------------------------------------------
    elem, sid_f, ra_f, day_ctor = ephemeris_roles(ctx)
    rep.sample({'sidereal field': sid_f, 'right-ascension field': ra_f})
    # ---- R20.6 the clock-midnight seam of clause 1 (a finding on the unchanged tree: see KNOWN_FINDINGS.txt) ----------------------------------
    from . import seam20
    rep.floor('day-fraction wraps examined for the clock-midnight seam (R20.6)', seam20.check(ctx, rep, sid_f), 0)
    norm = set(ctx.role('normalisers'))
    lon_adt = ctx.adt('Longitude')

    def is_lon(t):
        """numeric value of a Longitude: field `.0` of a longitude field / into(longitude)"""
        if t[0] == 'field' and t[2] == '0' and t[1][0] == 'field' and t[1][2] == 'longitude':
            return True
        if t[0] == 'app' and t[1] in ('into',) and t[2] and t[2][0][0] == 'field' and t[2][0][2] == 'longitude':
            return True
        return False

    def role_of(atom, depth=0):
        """'lon' / 'sid' / 'ra' / None for an atom of a linear form"""
        if atom[0] != 'p':
            return None
        t = atom[1]
        if is_lon(t):
            return 'lon'
        if t[0] == 'field' and t[2] == sid_f:
            return 'sid'
        if t[0] == 'field' and t[2] == ra_f:
            return 'ra'
        if t[0] == 'app' and t[1] in norm and t[2] and depth < 3:
            # a wrapped angle keeps the role of the angle inside it (sidereal time advanced by the day fraction)
            p = cn.cf(t[2][0])
            roles = {}
            for m, c in p.items():
                if len(m) == 1:
                    r_ = role_of(m[0], depth + 1)
                    if r_:
                        roles[r_] = roles.get(r_, 0.0) + c
            if len(roles) == 1:
                (r_, c), = roles.items()
                if abs(c - 1.0) < 1e-12:
                    return r_
        return None

    forms = []
    seen = set()

    def scan(T):
        for x in subterms(T):
            if not (x and x[0] == 'app' and x[2]):
                continue
            for a in x[2]:
                if not isinstance(a, tuple) or id(a) in seen:
                    continue
                seen.add(id(a))
                p = cn.cf(a)
                if any(len(m) == 1 and role_of(m[0]) == 'lon' for m in p):
                    forms.append((x[1], a, p))

    hb = ctx.role('hours_builder')
    eng = ctx.engine(opaque_roles=('normalisers', 'eph_ctors'))
    tree = eng.call_entry(hb, eng.sym_args(hb, ['params', 'tad', 'weather']))
    for st in E.leaves_of(tree):
        scan(st.ret if st.ret[0] != 'ref' else eng.force(st, st.ret))
    n_hours = len(forms)
    rep.floor('longitude forms in the conventional hours', n_hours, 2)
    for ctor in ctx.role('eph_ctors'):
        b = lib.bodies[ctor]
        if not any((b.locals[i].get('adt') or '').endswith('Coordinates') for i in range(1, b.arg_count + 1)):
            continue
        eng2 = ctx.engine(opaque_roles=('normalisers',))
        eng2.opaque.add(day_ctor)      # the per-day ephemeris stays symbolic: its fields are the atoms
        pushes = []
        eng2.hooks['vec_push'] = lambda e_, st, fr, t, ptr, v: pushes.append(e_.purify(st, v))
        tree2 = eng2.call_entry(ctor, eng2.sym_args(ctor))
        for v in pushes:
            scan(v)
        for st in E.leaves_of(tree2):
            if st.ret is not None:
                scan(st.ret)
    rep.floor('longitude forms in the topocentric ephemeris', len(forms) - n_hours, 1)
    keyn = {}
    for (fname, a, p) in forms:
        co = {'lon': 0.0, 'sid': 0.0, 'ra': 0.0}
        for m, c in p.items():
            if len(m) == 1:
                r_ = role_of(m[0])
                if r_:
                    co[r_] += c
        base = f'{last_seg(fname)}'
        keyn[base] = keyn.get(base, 0) + 1
        key = f'{base}#{keyn[base]}'
        if co['sid'] == 0.0 and co['ra'] == 0.0:
            rep.ob('R20.3', key, None, f'linear form with the longitude but without sidereal time / right ascension: {show(a, maxd=4)[:120]}')
            continue
        ok = co['lon'] * co['sid'] > 0 and co['lon'] * co['ra'] < 0 and abs(abs(co['lon']) - abs(co['sid'])) < 1e-12 and \
            abs(abs(co['lon']) - abs(co['ra'])) < 1e-12
        rep.ob('R20.3', key, ok,
               'sidereal + longitude - RA (up to an overall factor)' if ok else
               f'coefficients sidereal {co["sid"]:+.6g}, longitude {co["lon"]:+.6g}, RA {co["ra"]:+.6g}: not k*(sidereal + longitude - RA); '
               f'form: {show(a, maxd=5)[:160]}')
    # shared mechanism (a necessary condition of this property too): the ephemeris is taken at the requested date
    from . import shared, julian
    shared.include(ctx, rep, lambda c_, r_: julian.check(c_, r_, 'R20.4'), {'R20.4'}, why='Julian Day of the requested date')
    # shared mechanism: no wrap-induced jump of the interpolated right ascension / declination (R1.2)
    from . import shared, modular, conv as _CV
    shared.include(ctx, rep, lambda c_, r_: modular.check(c_, r_, _CV.get(c_)), {'R1.2'}, why='360->0 seam hygiene of the interpolation')
    # shared mechanism: the clock-time conversion wraps into [0, 24) after the offset and cannot fail (R11.4, R11.7)
    from . import shared, c11 as _c11
    shared.include(ctx, rep, _c11.run, {'R11.3', 'R11.4', 'R11.7'}, why='every reported hour becomes a valid clock time (minutes from the same hour, wraps, bounded operands)')


def subterms_of_atoms(m):
    for a in m:
        if a[0] == 'p':
            yield from subterms(a[1])
        else:
            for mm, _ in a[1]:
                yield from subterms_of_atoms(mm)
