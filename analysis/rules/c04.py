"""C04 - Asr follows the shadow-length rule of the selected school (partial)."""
from .. import engine as E
from .. import domains as D
from ..terms import show, subterms
from . import conv as CV
from . import solvers as S
from . import c05
from .common import const_f64


def run(ctx, rep):
    # the reported time is a function of the request alone: a cache or other hidden state on the computation path makes it depend on what was
    # computed before (C20's R20.5) - the same place and date, asked with another school, angle or weather, would get the earlier answer
    from . import shared, c20 as _c20h
    shared.include(ctx, rep, _c20h.run, {'R20.5'}, why='no thread-local, static or lock-protected state on the computation path')
    rep.explanation = (
        'Decides on the reconstructed Asr term: k is the numeric value of the school enum whose discriminants are Shafi=1, Hanafi=2; only '
        'Asr depends on the school and Asr depends on no angle/weather; Asr = Dhuhr + t, t in [0,12] h; Asr is weakly increasing in k '
        '(hence Hanafi not earlier than Shafi for every input, up to libm monotonicity); hemisphere parity. The 0.03 degree altitude and '
        'Asr < Maghrib are numeric: not decided.')
    rep.trusted = ['rustc MIR', 'libm monotone on monotone branches', '|lat| <= 60, |dec| < 24 (|lat-dec| < 90)']
    a = ctx.lib.adts[ctx.adt('AsrShadowRatio')]
    d = {v['name']: int(v['discr']) for v in a['variants']}
    rep.ob('R4.1', 'discriminants', d == {'Shafi': 1, 'Hanafi': 2}, f'AsrShadowRatio discriminants: {d}')
    c = CV.get(ctx)
    g, pay, shape = c.guard_and_payload('Asr')
    if pay is None:
        rep.ob('R4.0', 'Asr:shape', False, 'Asr value not of the guarded form')
        return
    ratio = ('field', ('param', 'params'), 'asr_shadow_ratio')
    ks = [x for x in subterms(pay) if x and x[0] == 'cast' and x[1] == 'f64' and any(y == ratio for y in subterms(x))]
    rep.ob('R4.1', 'k-is-the-enum-value', len(set(ks)) == 1, f'k = {show(ks[0])[:80] if ks else None}')
    for k in c.values:
        reads = CV.param_reads(c.values[k])
        if k == 'Asr':
            rep.ob('R4.2', 'Asr:reads', reads == {('asr_shadow_ratio',)}, f'Asr reads {sorted(reads)}')
            hw = CV.has_atom(c.values[k], ('param', 'weather'))
            rep.ob('R4.2', 'Asr:no-weather', not hw, 'no weather dependence' if not hw else 'Asr depends on weather')
        else:
            rep.ob('R4.2', f'{k}:independent-of-school', ('asr_shadow_ratio',) not in reads, f'{k} reads {sorted(reads)}')
    ok, detail = c05.orientation(c, 'Asr', +1)
    rep.ob('R4.3', 'Asr:orientation', ok, detail)
    c05.check_hour_per_degree(c, rep, 'R4.3', 'Asr')
    if ks:
        env = S.env_for(pay)
        env[ks[0]] = (1.0, 2.0)
        m = D.mono(pay, ks[0], env)
        rep.ob('R4.4', 'Asr:monotone-in-k', True if m == D.INC else (False if m == D.DEC else None), f'Asr is {m} in the shadow ratio k')
    # R4.6 the cotangent of the Asr altitude is k + tan|lat - dec| >= k >= 1: the denominator under the arctangent never drops below 1
    env = S.env_for(pay)
    if ks:
        env[ks[0]] = (1.0, 2.0)
    dens = [x[3] for x in subterms(pay) if x and x[0] == 'bin' and x[1] == 'Div' and const_f64(x[2]) == 1.0 and
            any(y in ks for y in subterms(x[3]))]
    rep.floor('shadow-length denominators', len(set(dens)), 1)
    for dterm in set(dens):
        lo, hi = D.rng(dterm, env)
        rep.ob('R4.6', 'shadow-term-at-least-k', lo >= 1.0 - 1e-9,
               f'k + tan|lat - dec| ranges over [{lo:.3f}, {hi:.3f}] (>= 1)' if lo >= 1.0 - 1e-9 else
               f'the shadow-length term {show(dterm, maxd=5)[:140]} can be as low as {lo:.3f} < k: the noon-shadow tangent is not '
               'taken of |lat - dec| (wrong when the Sun passes on the poleward side)')
    S.hemisphere_parity(rep, 'R4.5', 'Asr:parity', pay)
    if g is not None:
        S.hemisphere_parity(rep, 'R4.5', 'Asr:guard-parity', g)
    rep.sample({'Asr': show(pay, maxd=8)[:400]})
    # shared mechanism (a necessary condition of this property too): the ephemeris is taken at the requested date
    from . import shared, julian
    shared.include(ctx, rep, lambda c_, r_: julian.check(c_, r_, 'R4.7'), {'R4.7'}, why='Julian Day of the requested date')
    # shared mechanism: no wrap-induced jump of the interpolated right ascension / declination (R1.2)
    from . import shared, modular, conv as _CV
    shared.include(ctx, rep, lambda c_, r_: modular.check(c_, r_, _CV.get(c_)), {'R1.2'}, why='360->0 seam hygiene of the interpolation')
    # shared mechanism: the clock-time conversion (minutes from the same hour, wraps after the offset, bounded operands)
    from . import shared, c11 as _c11
    # the property is stated for unrounded seconds: in mode `None` the converter must hand the seconds through untouched (the `None` row of
    # C11's action table, for this property's own times); the other rows of the table are C11's alone
    shared.include(ctx, rep, _c11.run, {'R11.1', 'R11.3', 'R11.4', 'R11.7'},
                   keys=lambda key: key.count(':') >= 2 or key in ('None:Asr',),
                   why='every reported hour becomes a valid clock time (minutes from the same hour, wraps, bounded operands); '
                       'unrounded seconds (mode None) are reported as computed')

