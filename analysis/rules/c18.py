"""C18 - validated quantities hold only in-range values, however constructed.

Structural proof obligations (DESIGN §4 C18):
  R18.1 who may construct   R18.2 guarded constructor   R18.3 the three routes delegate
  R18.4 read back           R18.5 no panic in the routes R18.6 documented ranges
"""
from ..context import AnchorLost, last_seg
from ..facts import callee_name, callee_decl
from .. import engine as E
from ..terms import show, subterms
from .common import ite_leaves, interval_test, const_f64

DOC_RANGES = {
    'Latitude': (-90.0, 90.0), 'Longitude': (-180.0, 180.0), 'Elevation': (-420.0, 8848.0),
    'Gmt': (-12.0, 12.0), 'Pressure': (100.0, 1050.0), 'Temperature': (-90.0, 57.0),
}


def find_bounded_trait(ctx):
    """the private trait with a default method that returns Result<Self, _>, calls sibling methods of the
    trait (range / unchecked constructor) and is implemented by the local newtypes"""
    c = []
    for p, b in ctx.lib.bodies.items():
        if b.impl_of and 'trait_default' in b.impl_of and b.locals[0]['s'].startswith('std::result::Result<Self,'):
            tr = b.impl_of['trait_default']
            names = [callee_name(t) or '' for _, t in b.calls()]
            sib = [n for n in names if n.startswith(tr + '::')]
            nimpl = sum(1 for im in ctx.lib.impls if im['trait'] == tr and im['self_ty'] in ctx.lib.adts)
            if len(set(sib)) >= 2 and nimpl >= 2 and b.arg_count == 1:
                c.append((tr, p))
    if len(c) != 1:
        raise AnchorLost('bounded-trait', f'{len(c)} candidates')
    return c[0]


def _consts_in(rv):
    out = []
    if isinstance(rv, dict):
        if rv.get('k') == 'const':
            out.append(rv)
        for v in rv.values():
            if isinstance(v, dict):
                out += _consts_in(v)
            elif isinstance(v, list):
                for x in v:
                    out += _consts_in(x)
    return out


def strip_ref(s):
    if s.startswith('&mut '):
        return s[5:]
    if s.startswith('&'):
        return s[1:].lstrip("'_abcdefghijklmnopqrstuvwxyz ").strip() if s[1] == "'" else s[1:]
    if s.startswith('*const '):
        return s[7:]
    if s.startswith('*mut '):
        return s[5:]
    return s


def field_writes_of(body, tys):
    """places written (assigned or mutably borrowed) that end inside a field of one of `tys`"""
    out = []

    def scan(place, how):
        cur = body.locals[place['l']]['s']
        for e in place['p']:
            if e == 'deref':
                cur = strip_ref(cur)
            elif isinstance(e, dict) and 'f' in e:
                if cur in tys:
                    out.append((cur, how))
                    return
                cur = e['ty']
    for bi, si, s in body.assigns():
        if s['place']['p']:
            scan(s['place'], 'assign')
        rv = s['rv']
        if rv['k'] in ('ref', 'rawptr') and (rv.get('mut') or rv['k'] == 'rawptr') and rv['place']['p']:
            scan(rv['place'], 'mutable borrow')
    for bi, t in body.calls():
        if t['dest']['p']:
            scan(t['dest'], 'call destination')
    return out


def run(ctx, rep):
    lib = ctx.lib
    rep.explanation = (
        'Static who-may-construct / delegation proof over MIR of every body of the library and the CLI '
        '(derive expansions included): a value of one of the six validated newtypes can only be created by '
        'the guarded constructor (closed-range test on the same value), every route (TryFrom<f64>, FromStr, '
        'Deserialize) reaches that constructor and no other, reads return the stored field, ranges equal the '
        'documented ones. Decides the structural clauses; f64 parsing itself (str::parse, serde_json) is std/serde.')
    rep.trusted = ['rustc MIR (nightly, mir-opt-level=0)', 'RangeInclusive::contains is lo <= x && x <= hi (NaN fails)',
                   "serde's try_from container attribute expands to TryFrom::try_from (checked on the expansion)",
                   'str::parse::<f64> / serde_json number parsing']
    trait, try_from_default = find_bounded_trait(ctx)
    impls = [im for im in lib.impls if im['trait'] == trait]
    types = sorted(im['self_ty'] for im in impls)
    rep.floor('validated newtypes', len(types), 6)
    tyset = set(types)
    new_decl = None
    range_decl = None

    def impl_body_of(ty, method):
        for q, b in lib.bodies.items():
            io = b.impl_of or {}
            if io.get('trait') == trait and io.get('self_ty') == ty and last_seg(q) == method:
                return q
        for q in lib.bodies:       # associated consts carry no impl record: match the path
            if q.startswith(f'<{ty} as {trait}') and q.endswith('>::' + method):
                return q
        return None
    for _, t in lib.bodies[try_from_default].calls():
        n = callee_name(t)
        if n.startswith(trait + '::'):
            q = impl_body_of(types[0], last_seg(n)) if types else None
            rt = lib.bodies[q].locals[0] if q else {}
            if t['args'] and rt.get('adt') == types[0]:
                new_decl = n              # the unchecked constructor: value -> Self
            elif not t['args'] and rt.get('s', '').startswith('std::ops::RangeInclusive'):
                range_decl = n            # the range as a method (it may also be a pair of associated consts)
    if not new_decl:
        raise AnchorLost('bounded-trait methods')

    # ---- R18.6 ranges: from range() or from the associated consts the guard compares with ----------------
    def const_body_value(q):
        eng_ = ctx.engine()
        tree_ = eng_.call_entry(q, [])
        lv_ = list(E.leaves_of(tree_))
        return lv_[0].ret if len(lv_) == 1 else None

    def guard_bound_names():
        """names of the trait's associated consts read by the guarded constructor"""
        out = []
        b_ = lib.bodies[try_from_default]
        for blk in b_.blocks:
            for st_ in blk['stmts']:
                if st_['k'] == 'assign':
                    for o in _consts_in(st_['rv']):
                        if o.get('named', '').startswith(trait + '::') and o['named'] not in out:
                            out.append(o['named'])
        return out
    ranges = {}
    bound_names = guard_bound_names() if not range_decl else []
    for ty in types:
        lo = hi = None
        where = None
        if range_decl:
            p = impl_body_of(ty, last_seg(range_decl))
            if p is None:
                rep.ob('R18.6', ty, False, 'range() body not found')
                continue
            r = const_body_value(p)
            where = lib.bodies[p].span
            if r is not None and r[0] == 'rangeincl':
                lo, hi = const_f64(r[1]), const_f64(r[2])
        elif len(bound_names) == 2:
            vals = []
            for nm in bound_names:
                q = impl_body_of(ty, last_seg(nm))
                v = const_f64(const_body_value(q)) if q else None
                vals.append(v)
                where = lib.bodies[q].span if q else where
            if None not in vals:
                lo, hi = min(vals), max(vals)
        if lo is None or hi is None:
            rep.ob('R18.6', ty, None, 'range not available as a constant closed interval (range() or two associated consts)')
            continue
        ranges[ty] = (lo, hi)
        doc = DOC_RANGES.get(last_seg(ty))
        if doc is None:
            rep.ob('R18.6', ty, None, f'no documented range known for {ty}; found [{lo},{hi}]')
        else:
            rep.ob('R18.6', last_seg(ty), (lo, hi) == doc, f'range = [{lo}, {hi}], documented [{doc[0]}, {doc[1]}]', where=where)
    rep.sample({'ranges': {last_seg(k): v for k, v in ranges.items()}})

    # ---- R18.1 who may construct ---------------------------------------
    n_sites = 0
    n_fieldw = 0
    for facts in [ctx.lib, ctx.bin] + ctx.tests:
        for p, b in facts.bodies.items():
            for bi, si, s in b.assigns(include_cleanup=True):
                rv = s['rv']
                if rv['k'] == 'agg' and isinstance(rv['agg'], dict) and rv['agg'].get('adt') in tyset:
                    ty = rv['agg']['adt']
                    n_sites += 1
                    io = b.impl_of or {}
                    if io.get('trait') == trait and io.get('self_ty') == ty and last_seg(p) == last_seg(new_decl):
                        rep.ob('R18.1', f'{last_seg(ty)}:ctor', True, 'the guarded constructor itself')
                        continue
                    op = rv['ops'][0] if rv['ops'] else None
                    ok = False
                    detail = 'constructed outside the guarded constructor from a non-constant value'
                    if op is not None and op['k'] == 'const' and 'f64' in op and ty in ranges:
                        v = op['f64']
                        lo, hi = ranges[ty]
                        ok = isinstance(v, (int, float)) and lo <= float(v) <= hi
                        detail = f'constant {v} ' + ('inside' if ok else 'OUTSIDE') + f' [{lo},{hi}]'
                    if op is not None and op['k'] in ('move', 'copy') and not op['place']['p'] and ty in ranges:
                        # the field is the local that holds `<f64 as Default>::default()` - the constant 0.0 (a derived Default)
                        l_ = op['place']['l']
                        defs = [t_ for blk_ in b.blocks for t_ in [blk_['term']] if t_['k'] == 'call' and t_.get('dest', {}).get('l') == l_
                                and not t_['dest']['p']]
                        other = [s_ for _, _, s_ in b.assigns(include_cleanup=True) if s_['place']['l'] == l_ and not s_['place']['p']]
                        if len(defs) == 1 and not other and (defs[0]['callee'].get('resolved') or '') in (
                                '<f64 as std::default::Default>::default', '<f64 as core::default::Default>::default'):
                            lo, hi = ranges[ty]
                            ok = lo <= 0.0 <= hi
                            detail = 'f64::default() = 0.0 ' + ('inside' if ok else 'OUTSIDE') + f' [{lo},{hi}]'
                    rep.ob('R18.1', f'{last_seg(ty)}:{p}', ok, detail, where=s.get('span'))
                if rv['k'] == 'cast' and rv['to'] in tyset and 'Transmute' in rv['kind']:
                    rep.ob('R18.1', f'{last_seg(rv["to"])}:transmute:{p}', False, 'transmute into a validated newtype',
                           where=s.get('span'))
            for (ty, how) in field_writes_of(b, tyset):
                n_fieldw += 1
                rep.ob('R18.1', f'{last_seg(ty)}:fieldwrite:{p}', False, f'{how} of the private field outside the constructor',
                       where=b.span)
    for ty in types:
        a = lib.adts.get(ty)
        fs = a['variants'][0]['fields'] if a else []
        ok = bool(fs) and all(f['vis'] != 'public' for f in fs) and len(fs) == 1 and fs[0]['ty']['s'] == 'f64'
        rep.ob('R18.1', f'{last_seg(ty)}:field-private', ok, f'fields: {[(f["name"], f["vis"]) for f in fs]}')
    rep.floor('construction sites', n_sites, 6 + 4)
    rep.extra['construction_sites'] = n_sites

    # ---- R18.2 guarded constructor --------------------------------------
    callers_of_new = []
    for facts in [ctx.lib, ctx.bin] + ctx.tests:
        for p, b in facts.bodies.items():
            for bi, t in b.calls(include_cleanup=True):
                n = callee_name(t) or ''
                d = callee_decl(t) or ''
                if d == new_decl or (n.endswith('::' + last_seg(new_decl)) and f' as {trait}<' in n):
                    callers_of_new.append(p)
    for p in callers_of_new:
        rep.ob('R18.2', f'caller:{p}', p == try_from_default, 'unchecked constructor called only from the guarded default method')
    rep.floor('callers of the unchecked constructor', len(callers_of_new), 1)
    eng = ctx.engine()
    args = eng.sym_args(try_from_default, ['value'])
    tree = eng.call_entry(try_from_default, args)
    leaves = list(E.leaves_of(tree))
    ok = False
    detail = ''
    if len(leaves) == 1:
        ret = leaves[0].ret
        lv = list(ite_leaves(ret))
        oks = [(c, v) for c, v in lv if v[0] == 'enum' and v[2] == 'Ok']
        errs = [(c, v) for c, v in lv if v[0] == 'enum' and v[2] == 'Err']
        if len(oks) == 1 and len(errs) >= 1 and len(oks) + len(errs) == len(lv):
            conds, okv = oks[0]
            want_new = ('app', new_decl, (('param', 'value'),))
            it = None
            neg = [c for c, pol in conds if not pol]
            if neg:
                detail = ('the accepting path is reached through the *false* outcome of a comparison '
                          f'({show(neg[0])[:80]}): NaN compares false and is accepted')
            else:
                g = None
                for c, pol in reversed(conds):
                    g = c if g is None else ('ite', c, g, E.FALSE)
                it = interval_test(g, ('param', 'value'))
            if neg:
                pass
            elif okv[4][0] != want_new:
                detail = f'Ok payload is {show(okv[4][0])}, expected {last_seg(new_decl)}(value)'
            elif it is None:
                detail = f'guard is not a closed-interval test on the same value: {show(conds)}'
            else:
                lo, hi, clo, chi = it
                rng = ('app', range_decl, ()) if range_decl else None
                los = (('range_start', rng), ('app', 'range_start', (rng,)))
                his = (('range_end', rng), ('app', 'range_end', (rng,)))

                def assoc(t_):
                    return isinstance(t_, tuple) and t_ and t_[0] == 'constx' and str(t_[2]).startswith(trait + '::')
                if rng is not None and lo in los and hi in his and clo and chi:
                    ok = True
                    detail = 'Ok(new(value)) iff range().contains(&value); Err otherwise'
                elif rng is None and assoc(lo) and assoc(hi) and lo != hi and clo and chi and \
                        [str(lo[2]), str(hi[2])] == bound_names:
                    ok = True
                    detail = f'Ok(new(value)) iff {last_seg(str(lo[2]))} <= value <= {last_seg(str(hi[2]))}; Err otherwise'
                else:
                    detail = f'guard bounds {show(lo)}..{show(hi)} closed=({clo},{chi}) are not the inclusive range of the type'
        else:
            detail = f'unexpected outcome shape: {show(ret)[:300]}'
    else:
        detail = f'{len(leaves)} outcomes'
    rep.ob('R18.2', 'guard-shape', ok, detail, where=lib.bodies[try_from_default].span)
    rep.sample({'guarded_ctor': show(leaves[0].ret)[:400] if leaves else None})
    n_pan = sum(1 for e in eng.log if e['kind'] == 'panic')

    # ---- R18.3 routes ----------------------------------------------------
    def impl_fn(ty, trait_suffix, fname):
        c = []
        for p, b in lib.bodies.items():
            io = b.impl_of or {}
            if io.get('self_ty') == ty and (io.get('trait') or '').endswith(trait_suffix) and last_seg(p) == fname \
                    and b.kind == 'AssocFn':
                c.append(p)
        return c

    n_routes = 0
    tf_of = {}
    for ty in types:
        c = impl_fn(ty, 'convert::TryFrom', 'try_from')
        if len(c) != 1:
            rep.ob('R18.3', f'{last_seg(ty)}:TryFrom', False, 'no unique TryFrom<f64> impl')
            continue
        tf_of[ty] = c[0]
        eng = ctx.engine()
        eng.opaque.add(try_from_default)
        tree = eng.call_entry(c[0], [('param', 'value')])
        lv = list(E.leaves_of(tree))
        good = len(lv) == 1 and lv[0].ret == ('app', try_from_default, (('param', 'value'),))
        rep.ob('R18.3', f'{last_seg(ty)}:TryFrom', good,
               'delegates to the guarded default method with the same value' if good else
               f'returns {show(lv[0].ret)[:200] if lv else "nothing"}', where=lib.bodies[c[0]].span)
        n_pan += sum(1 for e in eng.log if e['kind'] == 'panic')
        n_routes += 1
    # FromStr: whatever the route (a shared default method, a generic helper, inline code), a value is produced only as
    # Self::try_from(s.parse::<f64>()?)?
    def parse_route_ok(ret):
        """(good, detail) for the outcome term of a text route"""
        oks = [(c, v) for c, v in ite_leaves(ret) if v[0] == 'enum' and v[2] == 'Ok']
        others = [(c, v) for c, v in ite_leaves(ret) if not (v[0] == 'enum' and v[2] in ('Ok', 'Err'))]
        if not oks or others:
            return False, f'unexpected outcome shape: {show(ret)[:200]}'
        for c, v in oks:
            pay = v[4][0]
            q = pay
            okq = q[0] == 'field' and q[1][0] == 'as' and q[1][2] == 'Ok'
            Q = q[1][1] if okq else None
            okQ = okq and Q[0] == 'app' and (Q[1].endswith('TryFrom::try_from') or Q[1] in tf_of.values() or Q[1] == try_from_default) \
                and len(Q[2]) == 1
            x = Q[2][0] if okQ else None
            okx = okQ and x[0] == 'field' and x[1][0] == 'as' and x[1][2] == 'Ok' and x[1][1][0] == 'app' and \
                x[1][1][1].endswith('<impl str>::parse') and x[1][1][2] == (('param', 's'),)
            if not okx:
                return False, f'Ok payload {show(pay)[:200]} is not try_from(parse(s)?)?'
        # the converse: an Err that is not the failure of str::parse or of try_from is a rejection only the text route makes.
        # Whether it is redundant (the text would not have parsed anyway) is a question about strings: not decided.
        for c, v in ite_leaves(ret):
            if v[0] == 'enum' and v[2] == 'Err':
                failed = [cc for cc, pol in c if not pol and cc[0] == 'bin' and cc[1] == 'Eq' and cc[2][0] == 'discr' and cc[2][1][0] == 'app' and
                          (cc[2][1][1].endswith('<impl str>::parse') or cc[2][1][1].endswith('try_from'))]
                if not failed:
                    own = [show(cc, maxd=3)[:80] for cc, pol in c]
                    return None, f'the text route also answers Err under {own}: a rejection of its own, not shared with the other routes - not decided'
        return True, 'Ok(t) only for t = Self::try_from(s.parse::<f64>()?)?; every other outcome is Err'

    parse_defaults = [p for p, b in lib.bodies.items() if b.impl_of and 'trait_default' in b.impl_of and
                      any((callee_name(t) or '').endswith('<impl str>::parse') for _, t in b.calls())]
    fromstr_types = []
    n_text = 0
    for ty in types:
        c = impl_fn(ty, 'str::FromStr', 'from_str')
        if not c:
            continue
        fromstr_types.append(ty)
        eng = ctx.engine()
        for pd in parse_defaults:
            eng.opaque.add(pd)
        for q_ in tf_of.values():
            eng.opaque.add(q_)
        eng.opaque.add(try_from_default)
        tree = eng.call_entry(c[0], eng.sym_args(c[0], ['s']))
        lv = list(E.leaves_of(tree))
        if len(lv) == 1 and lv[0].ret[0] == 'app' and lv[0].ret[1] in parse_defaults and lv[0].ret[2] == (('param', 's'),):
            good, detail = True, 'delegates to the shared parse-then-validate default method'
        elif len(lv) == 1:
            good, detail = parse_route_ok(lv[0].ret)
            n_text += 1 if good else 0
        else:
            good, detail = False, f'{len(lv)} outcomes'
        rep.ob('R18.3', f'{last_seg(ty)}:FromStr', good, detail, where=lib.bodies[c[0]].span)
        n_pan += sum(1 for e in eng.log if e['kind'] == 'panic')
        n_routes += 1
    rep.floor('FromStr routes', len(fromstr_types), 4)
    for pd in parse_defaults:
        eng = ctx.engine()
        for q_ in tf_of.values():
            eng.opaque.add(q_)
        tree = eng.call_entry(pd, eng.sym_args(pd, ['s']))
        lv = list(E.leaves_of(tree))
        good, detail = parse_route_ok(lv[0].ret) if len(lv) == 1 else (False, f'{len(lv)} outcomes')
        rep.ob('R18.3', f'parse-default:{last_seg(pd)}', good, detail, where=lib.bodies[pd].span)
        n_pan += sum(1 for e in eng.log if e['kind'] == 'panic')
        n_text += 1 if good else 0
    rep.floor('verified text routes (shared method or per type)', n_text, 1)
    # R18.9 the numeric route on witness values: every finite value inside the documented range is accepted - the end points, both
    # zeros, the smallest subnormal, the smallest normal number.  The route is interpreted on constants (comparisons and f64
    # classification fold); an outcome that is not a constant Ok/Err leaves the case undecided.
    n_v = 0
    for ty in types:
        if ty not in ranges or ty not in tf_of:
            continue
        lo, hi = ranges[ty]
        cand = [lo, hi, (lo + hi) / 2.0, 0.0, -0.0, 5e-324, -5e-324, 2.2250738585072014e-308, -2.2250738585072014e-308, 1.0, -1.0]
        for w_ in cand:
            if not (lo <= w_ <= hi):
                continue
            eng = ctx.engine()
            try:
                tree = eng.call_entry(tf_of[ty], [E.C('f64', w_)])
                lv = list(E.leaves_of(tree))
            except Exception:   # noqa
                lv = []
            outs = {v[2] for st_ in lv for c, v in ite_leaves(st_.ret) if v[0] == 'enum'}
            free = any(st_.asm for st_ in lv)
            n_v += 1
            odd = sorted(n_ for n_ in eng.unmodelled if n_.startswith(('std::', 'core::', 'alloc::')) and not n_.startswith(('core::fmt::', 'std::fmt::')))
            verdict = None
            if lv and not free and not odd and outs == {'Ok'}:
                verdict = True
            elif lv and not free and not odd and outs == {'Err'}:
                verdict = False
            rep.ob('R18.9', f'witness-value:{last_seg(ty)}:{w_!r}', verdict,
                   f'{w_!r} is accepted' if verdict else (f'the finite value {w_!r} lies inside [{lo}, {hi}] and is rejected by TryFrom<f64>'
                                                          if verdict is False else f'outcome for {w_!r} not constant ({sorted(outs)}, {odd[:2]})'),
                   where=lib.bodies[tf_of[ty]].span)
            # ... and what is stored is the value given, bit for bit (no folding of an end point onto another representation)
            if verdict:
                import struct as _st
                stored = [x for st_ in lv for c, v in ite_leaves(st_.ret) if v[0] == 'enum' and v[2] == 'Ok'
                          for x in subterms(v) if x and x[0] == 'c' and x[1] == 'f64' and isinstance(x[2], float)]
                if len(stored) == 1:
                    # (the interpreter's constants do not tell -0.0 from 0.0: the zeros are compared by value)
                    same = (stored[0][2] == w_) if w_ == 0.0 else _st.pack('<d', stored[0][2]) == _st.pack('<d', w_)
                    rep.ob('R18.9', f'witness-stored:{last_seg(ty)}:{w_!r}', same,
                           f'{w_!r} is stored as given' if same else f'the accepted value {w_!r} is stored as {stored[0][2]!r}: it does not read back as the value given',
                           where=lib.bodies[tf_of[ty]].span)
                else:
                    rep.ob('R18.9', f'witness-stored:{last_seg(ty)}:{w_!r}', None, f'{len(stored)} f64 constants in the accepted value')
    rep.extra['numeric_witnesses'] = n_v
    # R18.8 what is handed to str::parse is the input text itself: a prefix stripped, a trim, a replacement before parsing changes the
    # set of accepted spellings (`"+-5"`, `" 5"`), whatever the helper does - decided on the argument term alone, so it does not
    # depend on the interpreter understanding the helper
    n_parse = 0
    for fn_ in sorted(set(parse_defaults) | {impl_fn(ty, 'str::FromStr', 'from_str')[0] for ty in fromstr_types}):
        eng = ctx.engine()
        for q_ in tf_of.values():
            eng.opaque.add(q_)
        eng.opaque.add(try_from_default)
        if fn_ not in parse_defaults:
            for pd in parse_defaults:
                eng.opaque.add(pd)
        try:
            tree = eng.call_entry(fn_, eng.sym_args(fn_, ['s']))
            lv = list(E.leaves_of(tree))
        except Exception:   # noqa
            continue
        parses = set()
        for st_ in lv:
            for x in list(subterms(st_.ret)) + [y for c_ in st_.asm for y in subterms(c_)]:
                if x and x[0] == 'app' and x[1].endswith('<impl str>::parse'):
                    parses.add(x)
        for x in parses:
            n_parse += 1
            okp = x[2] == (('param', 's'),)
            rep.ob('R18.8', f'parse-argument:{last_seg(fn_)}', okp,
                   'str::parse is applied to the input text itself' if okp else
                   f'str::parse is applied to {show(x[2][0], maxd=4)[:120]}, not to the input text: the text route accepts spellings the float '
                   'grammar rejects (or the reverse)', where=lib.bodies[fn_].span)
    rep.extra['parse_calls_on_text_routes'] = n_parse
    # the text route on witness spellings: every form of the float grammar of `str::parse::<f64>` (sign, bare point, exponent in
    # either case, leading zeros) reaches the shared parse-then-validate step; a text-only test that answers Err for one of them
    # before parsing rejects a number the other two routes accept.  The route is evaluated with `s` a constant: predicates of
    # constant text fold (models), `parse` and `try_from` stay uninterpreted, anything else leaves the case undecided.
    WITNESS = ('1', '-1', '+1', '1.', '.5', '1.5', '1e1', '1E1', '1e-1', '1.5e+1', '0010', '-0')
    n_w = 0
    for fn_ in sorted(set(parse_defaults) | {impl_fn(ty, 'str::FromStr', 'from_str')[0] for ty in fromstr_types}):
        for w_ in WITNESS:
            eng = ctx.engine()
            for q_ in tf_of.values():
                eng.opaque.add(q_)
            eng.opaque.add(try_from_default)
            if fn_ not in parse_defaults:
                for pd in parse_defaults:
                    eng.opaque.add(pd)
            try:
                tree = eng.call_entry(fn_, [E.C('&str', w_)])
                lv = list(E.leaves_of(tree))
            except Exception as ex:     # noqa
                rep.ob('R18.7', f'witness-spelling:{last_seg(fn_)}:{w_}', None, f'not evaluated: {type(ex).__name__}')
                continue
            n_w += 1
            verdict, why = True, 'reaches parse-then-validate'
            for st_ in lv:
                for c, v in ite_leaves(st_.ret):
                    if not (v[0] == 'enum' and v[2] == 'Err'):
                        continue
                    conds = list(c) + [(cc, pol) for cc, pol in st_.asm.items()]
                    failed = [cc for cc, pol in conds if not pol and cc[0] == 'bin' and cc[1] == 'Eq' and cc[2][0] == 'discr' and cc[2][1][0] == 'app'
                              and (cc[2][1][1].endswith('<impl str>::parse') or cc[2][1][1].endswith('try_from'))]
                    if failed:
                        continue
                    if not conds:
                        verdict, why = False, (f'the text "{w_}" - a spelling `str::parse::<f64>` accepts - is answered Err before it is parsed: '
                                               'the text route rejects a number the numeric and JSON routes accept')
                    elif verdict:
                        verdict, why = None, f'Err under {[show(cc, maxd=3)[:60] for cc, pol in conds][:2]}: not decided'
            # this rule is exempt from the run-wide downgrade (its runs are on constant text): it applies the same test to itself
            odd = sorted(n_ for n_ in eng.unmodelled if n_.startswith(('std::', 'core::', 'alloc::')) and not n_.startswith(
                ('core::fmt::', 'std::fmt::', 'std::string::ToString', 'core::str::<impl str>::parse', 'std::convert::TryFrom::try_from')))
            if odd and verdict is False:
                verdict, why = None, f'[not decided: library calls without a model on this path: {odd[:3]}] ' + why
            rep.ob('R18.7', f'witness-spelling:{last_seg(fn_)}:{w_}', verdict, why, where=lib.bodies[fn_].span)
    rep.floor('witness spellings evaluated on the text routes', n_w, len(WITNESS))
    # Deserialize
    for ty in types:
        c = [p for p, b in lib.bodies.items() if (b.impl_of or {}).get('self_ty') == ty and
             (b.impl_of.get('trait') or '').endswith('::Deserialize') and last_seg(p) == 'deserialize']
        if len(c) != 1:
            rep.ob('R18.3', f'{last_seg(ty)}:Deserialize', False, f'{len(c)} Deserialize impls')
            continue
        eng = ctx.engine()
        if ty in tf_of:
            eng.opaque.add(tf_of[ty])
        tree = eng.call_entry(c[0], eng.sym_args(c[0], ['d']))
        lv = list(E.leaves_of(tree))
        good = False
        detail = ''
        if len(lv) == 1:
            oks = [(cc, v) for cc, v in ite_leaves(lv[0].ret) if isinstance(v, tuple) and v[0] == 'enum' and v[2] == 'Ok']
            others = [(cc, v) for cc, v in ite_leaves(lv[0].ret) if not (isinstance(v, tuple) and v[0] == 'enum' and v[2] in ('Ok', 'Err'))]
            if others:
                detail = f'value produced by an unanalysed visitor: {show(others[0][1])[:160]}'
            elif not oks:
                detail = 'no Ok outcome'
            else:
                good = True
                for cc, v in oks:
                    pay = v[4][0]
                    okq = pay[0] == 'field' and pay[1][0] == 'as' and pay[1][2] == 'Ok'
                    Q = pay[1][1] if okq else None
                    okQ = okq and Q[0] == 'app' and Q[1] == tf_of.get(ty) and len(Q[2]) == 1
                    x = Q[2][0] if okQ else None
                    okx = okQ and x[0] == 'field' and x[1][0] == 'as' and x[1][2] == 'Ok' and x[1][1][0] == 'app' and \
                        'Deserialize' in x[1][1][1] and 'f64' in x[1][1][1]
                    if not okx:
                        good = False
                        detail = f'Ok payload {show(pay)[:200]} does not come from TryFrom::try_from(f64::deserialize(d)?)'
                if good:
                    detail = 'Ok(t) only for t = T::try_from(f64::deserialize(d)?)?'
        else:
            detail = f'{len(lv)} outcomes'
        rep.ob('R18.3', f'{last_seg(ty)}:Deserialize', good, detail, where=lib.bodies[c[0]].span)
        n_routes += 1
    rep.extra['routes_checked'] = n_routes

    # ---- R18.4 read back -------------------------------------------------
    n_from = 0
    for ty in types:
        c = [p for p, b in lib.bodies.items() if (b.impl_of or {}).get('self_ty') == 'f64' and
             (b.impl_of.get('trait') or '').endswith('convert::From') and last_seg(p) == 'from' and
             b.arg_count == 1 and b.locals[1]['s'] == ty]
        if len(c) != 1:
            rep.ob('R18.4', last_seg(ty), None, 'no From<T> for f64')
            continue
        n_from += 1
        eng = ctx.engine()
        tree = eng.call_entry(c[0], [('param', 'value')])
        lv = list(E.leaves_of(tree))
        good = len(lv) == 1 and lv[0].ret in (('field', ('param', 'value'), '0'), ('field', ('param', 'value'), 0))
        rep.ob('R18.4', last_seg(ty), good, 'returns the stored field unchanged' if good else
               f'returns {show(lv[0].ret)[:200] if lv else None}', where=lib.bodies[c[0]].span)
    rep.floor('From<T> for f64 impls', n_from, 6)

    # ---- R18.5 no panic in the routes -------------------------------------
    rep.ob('R18.5', 'routes', n_pan == 0, f'{n_pan} reachable panic site(s) in the construction routes')
    from . import c07
    roots = [try_from_default] + parse_defaults + list(tf_of.values())
    for ty in types:
        roots += impl_fn(ty, 'str::FromStr', 'from_str')
        roots += [p for p, b in lib.bodies.items() if (b.impl_of or {}).get('self_ty') == ty and
                  (b.impl_of.get('trait') or '').endswith('::Deserialize') and last_seg(p) == 'deserialize']
    reach = set()
    for r in roots:
        reach |= lib.reachable_from(r)
    n_sites = 0
    for (p, bi, cls, n) in c07.static_sites(ctx, reach):
        n_sites += 1
        if cls == 'unwrap':
            continue        # path-sensitively discharged above (no panic event in any outcome)
        rep.ob('R18.5', f'{p}:{cls}:{last_seg(n)}', False, f'panic-capable {cls} ({n}) inside a construction route',
               where=lib.bodies[p].blocks[bi]['term'].get('span'))
    rep.extra['route_bodies'] = len(reach)
    rep.extra['route_panic_sites'] = n_sites
