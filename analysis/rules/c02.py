"""C02 - Shurooq and Maghrib are sunrise and sunset of the Sun's upper limb (partial)."""
from .. import engine as E
from .. import domains as D
from ..terms import show, subterms
from .common import const_f64
from . import conv as CV
from . import solvers as S
from . import worlds as W


def run(ctx, rep):
    # the reported time is a function of the request alone: a cache or other hidden state on the computation path makes it depend on what was
    # computed before (C20's R20.5) - the same place and date, asked with another school, angle or weather, would get the earlier answer
    from . import shared, c20 as _c20h
    shared.include(ctx, rep, _c20h.run, {'R20.5'}, why='no thread-local, static or lock-protected state on the computation path')
    rep.explanation = (
        'Decides: weather non-interference (Fajr, Dhuhr, Asr, Isha do not depend on weather; Shurooq/Maghrib do and depend on no method '
        'parameter; through the policy layer weather reaches other times only via a Shurooq/Maghrib cell), one horizon constant in '
        '[-0.883, -0.783] used both in cos H0 and in the altitude correction, shared validity guard (C06), hemisphere parity of cos H0. '
        'The 0.05 degree altitude agreement and "by seconds only" are numeric: not decided.')
    rep.trusted = ['rustc MIR', '|lat| <= 60']
    c = CV.get(ctx)
    W_ATOM = ('param', 'weather')
    for k in ('Fajr', 'Dhuhr', 'Asr', 'Isha'):
        hw = CV.has_atom(c.values.get(k, ()), W_ATOM)
        rep.ob('R2.1', f'{k}:no-weather', not hw, f'{k} does not depend on weather' if not hw else f'{k} depends on weather')
    for k in ('Shurooq', 'Maghrib'):
        v = c.values.get(k, ())
        hw = CV.has_atom(v, W_ATOM)
        rep.ob('R2.1', f'{k}:uses-weather', hw, f'refraction (weather) enters {k}' if hw else f'{k} ignores the weather argument')
        reads = CV.param_reads(v)
        rep.ob('R2.1', f'{k}:no-method-parameter', not reads, f'{k} reads params {sorted(reads)}' if reads else 'independent of the method parameters')
        g, pay, shape = c.guard_and_payload(k)
        if pay is None:
            rep.ob('R2.0', f'{k}:shape', False, 'value not of the guarded form')
            continue
        # horizon constant: sin(to_radians(C)) inside the guard; the same C subtracted from the refracted altitude
        hs = {const_f64(x[2][0][2][0]) for x in subterms(g) if x and x[0] == 'app' and x[1] == 'sin' and x[2][0][0] == 'app' and
              x[2][0][1] == 'to_radians' and const_f64(x[2][0][2][0]) is not None}
        okh = len(hs) == 1 and all(-0.883 <= h <= -0.783 for h in hs)
        rep.ob('R2.2', f'{k}:horizon-constant', okh, f'cos H0 uses h0 = {sorted(hs)} (-0.833 +/- 0.05)')
        corr = set()
        for x in subterms(pay):
            if x and x[0] == 'bin' and x[1] == 'Sub' and const_f64(x[3]) is not None and -2.0 < const_f64(x[3]) < 0.0 and \
                    any(y and y[0] == 'app' and y[1] == 'asin' for y in subterms(x[2])):
                corr.add(const_f64(x[3]))
        okc = len(corr) == 1 and corr == hs
        rep.ob('R2.2', f'{k}:same-constant-in-correction', okc,
               f'the altitude correction subtracts {sorted(corr)}; cos H0 uses {sorted(hs)}')
        S.hemisphere_parity(rep, 'R2.4', f'{k}:guard-parity', g)
    # ---- R2.5 the weather factor of the refraction: proportional to pressure, inverse in absolute temperature, 1 at standard conditions
    PR = ('field', ('field', ('param', 'weather'), 'pressure'), '0')
    TE = ('field', ('field', ('param', 'weather'), 'temperature'), '0')
    for k in ('Shurooq', 'Maghrib'):
        v = c.values.get(k, ())
        cands = []
        for x in subterms(v):
            if not x or x[0] not in ('bin', 'un'):
                continue
            atoms = {y for y in subterms(x) if y and y[0] in ('param', 'field', 'mapget', 'elem', 'app') and not any(
                z is not y and z in (PR, TE) for z in ())}
            leaves = {y for y in subterms(x) if y and (y[0] in ('param',) or (y[0] == 'app'))}
            if any(y == ('param', 'weather') for y in subterms(x)) and all(y == ('param', 'weather') for y in leaves) and \
                    any(y == PR for y in subterms(x)) and any(y == TE for y in subterms(x)):
                cands.append(x)
        cands = [x for x in cands if not any(x is not y and any(z is x for z in subterms(y)) for y in cands)]
        if not cands:
            rep.ob('R2.5', f'{k}:weather-factor', None, 'weather factor not isolated')
            continue
        for m in cands[:1]:
            env = {PR: (100.0, 1050.0), TE: (-90.0, 57.0)}
            mp = D.mono(m, PR, env)
            mt = D.mono(m, TE, env)
            rep.ob('R2.5', f'{k}:refraction-increases-with-pressure', True if mp == D.INC else (False if mp == D.DEC else None),
                   f'weather factor {show(m, maxd=5)[:100]} is {mp} in pressure (refraction is proportional to pressure)')
            rep.ob('R2.5', f'{k}:refraction-decreases-with-temperature', True if mt == D.DEC else (False if mt == D.INC else None),
                   f'weather factor is {mt} in temperature')
            lo, hi = D.rng(m, {PR: (1010.0, 1010.0), TE: (10.0, 10.0)})
            rep.ob('R2.5', f'{k}:unit-at-standard-conditions', 0.98 <= lo and hi <= 1.02,
                   f'weather factor at 1010 mbar / 10 C is [{lo:.4f}, {hi:.4f}] (1 by definition)')
    # ---- R2.6 the rise/set day fraction is normalised into [0, 1) before it is converted to hours
    for k in ('Shurooq', 'Maghrib'):
        g, pay, shape = c.guard_and_payload(k)
        if pay is None:
            continue
        t = pay
        scale = 1.0
        while t[0] == 'bin' and t[1] == 'Mul' and (const_f64(t[2]) is not None or const_f64(t[3]) is not None):
            t = t[3] if const_f64(t[2]) is not None else t[2]
        summands = []
        st = [t]
        while st:
            x = st.pop()
            if x[0] == 'bin' and x[1] in ('Add', 'Sub'):
                st += [x[2], x[3]]
            else:
                summands.append(x)
        ms = [x for x in summands if not any(y and y[0] == 'app' and y[1] == 'asin' for y in subterms(x)) and const_f64(x) is None]
        # day fractions may combine several summands (e.g. cap1(m0) - adj): take their sum's range
        if not ms:
            rep.ob('R2.6', f'{k}:day-fraction', None, 'day-fraction term not isolated')
            continue
        # rebuild the non-correction part as it appears: the top-level first operand
        mterm = t[2] if t[0] == 'bin' and t[1] in ('Add', 'Sub') and not any(y and y[0] == 'app' and y[1] == 'asin' for y in subterms(t[2])) else None
        if mterm is None:
            rep.ob('R2.6', f'{k}:day-fraction', None, 'day-fraction term not isolated')
            continue
        lo, hi = D.rng(mterm, S.env_for(pay))
        ok = lo >= -1e-9 and hi <= 1.0 + 1e-9
        rep.ob('R2.6', f'{k}:day-fraction-normalised', ok if (lo, hi) != D.TOP else None,
               f'day fraction of {k} lies in [{lo:.3f}, {hi:.3f}]' + ('' if ok else
               ': outside [0,1] the event of the previous/next day is reported on the requested date'))
    # through the policy layer: weather reaches a final Fajr/Isha/Asr/Dhuhr only via conv:Shurooq / conv:Maghrib or a recomputation
    pa = W.get(ctx, rep)
    n = 0
    for w in pa.worlds:
        if w.policy != 'None' or not w.final:
            continue
        n += 1
        for k in ('Fajr', 'Dhuhr', 'Asr', 'Isha'):
            cell = w.final[k]
            if cell[0] != 'Ok':
                continue
            hw = CV.has_atom(cell[1], W_ATOM)
            rep.ob('R2.1', f'None:{k}:weather-only-via-rise-set', not hw,
                   'weather does not enter directly' if not hw else f'{k} depends on weather directly under policy None')
    rep.floor('policy-None worlds', n, 16)
    rep.sample({'Shurooq': show(c.values.get('Shurooq'), maxd=5)[:300]})
    # shared mechanism (a necessary condition of this property too): the ephemeris is taken at the requested date
    from . import shared, julian
    shared.include(ctx, rep, lambda c_, r_: julian.check(c_, r_, 'R2.7'), {'R2.7'}, why='Julian Day of the requested date')
    # shared mechanism: no wrap-induced jump of the interpolated right ascension / declination (R1.2)
    from . import shared, modular, conv as _CV
    shared.include(ctx, rep, lambda c_, r_: modular.check(c_, r_, _CV.get(c_)), {'R1.2'}, why='360->0 seam hygiene of the interpolation')
    # shared mechanism: the clock-time conversion (minutes from the same hour, wraps after the offset, bounded operands)
    from . import shared, c11 as _c11
    # the property is stated for unrounded seconds: in mode `None` the converter must hand the seconds through untouched (the `None` row of
    # C11's action table, for this property's own times); the other rows of the table are C11's alone
    shared.include(ctx, rep, _c11.run, {'R11.1', 'R11.3', 'R11.4', 'R11.7'},
                   keys=lambda key: key.count(':') >= 2 or key in ('None:Shurooq', 'None:Maghrib'),
                   why='every reported hour becomes a valid clock time (minutes from the same hour, wraps, bounded operands); '
                       'unrounded seconds (mode None) are reported as computed')

