"""C16 - Qibla is the great-circle bearing to the Kaaba (partial)."""
import math
from ..context import AnchorLost, last_seg
from .. import engine as E
from .. import domains as D
from ..facts import callee_name
from ..terms import show, subterms
from .common import const_f64


def run(ctx, rep):
    rep.explanation = (
        'Decides on the constructor term: full-circle image (atan2 of two non-constant terms, then degrees => (-180,180]), independence '
        'from elevation, the two Kaaba constants, east/west mirror antisymmetry and the sign convention (east of the Kaaba => positive), '
        'and label/text consistency (rotation() is the sign of the same field; Display prints |degrees| and rotation()). '
        'The 1e-6 deg agreement with an independent computation is numeric: not decided.')
    rep.trusted = ['rustc MIR', 'f64::atan2 has image (-pi, pi]']
    new = ctx.pub_fn('new', 'Qibla')
    eng = ctx.engine()
    tree = eng.call_entry(new, [('param', 'coords')])
    lv = list(E.leaves_of(tree))
    rep.ob('R16.0', 'single-outcome', len(lv) == 1, f'{len(lv)} outcomes')
    if len(lv) != 1:
        return
    q = lv[0].ret
    a = ctx.lib.adts[ctx.adt('Qibla')]
    fields = [f['name'] for f in a['variants'][0]['fields']]
    fl = [i for i, f in enumerate(a['variants'][0]['fields']) if f['ty']['s'] == 'f64']
    if q[0] != 'enum' or len(fl) != 1:
        raise AnchorLost('Qibla value shape')
    deg = q[4][fl[0]]
    dname = fields[fl[0]]
    rep.sample({'degrees': show(deg, maxd=9)[:500]})
    # R16.1 every outcome is the atan2 formula; a constant bearing is only acceptable where both atan2 arguments vanish
    from .common import ite_leaves
    leaves = list(ite_leaves(deg))
    if len(leaves) > 1:
        formula = [v for c, v in leaves if any(x and x[0] == 'app' and x[1] == 'atan2' for x in subterms(v))]
        for conds, v in leaves:
            if const_f64(v) is not None:
                zeros = [c for c, pol in conds if pol and c[0] == 'bin' and c[1] == 'Eq' and (const_f64(c[3]) == 0.0 or const_f64(c[2]) == 0.0)]
                ok2 = len(zeros) >= 2
                rep.ob('R16.1', 'constant-bearing-case', ok2,
                       'a fixed bearing is returned only where both atan2 arguments are zero (bearing undefined)' if ok2 else
                       f'a fixed bearing {const_f64(v)} is returned under {[(show(c, maxd=3)[:60], pol) for c, pol in conds]}: '
                       'locations other than the Kaaba / its antipode are affected')
        if len(formula) == 1:
            deg = formula[0]
    lo, hi = D.rng(deg)
    full = lo <= -180.0 + 1e-9 and hi >= 180.0 - 1e-9
    at2 = [x for x in subterms(deg) if x and x[0] == 'app' and x[1] == 'atan2']
    inner = deg
    while inner[0] == 'app' and inner[1] in ('to_degrees',):
        inner = inner[2][0]
    top_atan2 = inner[0] == 'app' and inner[1] == 'atan2' and const_f64(inner[2][0]) is None and const_f64(inner[2][1]) is None
    if top_atan2 and full and hi <= 180.0 + 1e-9:
        rep.ob('R16.1', 'full-circle-image', True, f'degrees = to_degrees(atan2(y, x)), image [{lo:.1f}, {hi:.1f}]')
    elif hi - lo < 360.0 - 1e-6 and (lo, hi) != D.TOP:
        rep.ob('R16.1', 'full-circle-image', False, f'image of the bearing is [{lo:.1f}, {hi:.1f}]: bearings beyond it cannot be reported '
               f'({show(inner, maxd=2)[:60]})')
    else:
        rep.ob('R16.1', 'full-circle-image', None, f'image [{lo}, {hi}] not decided for {show(inner, maxd=2)[:80]}')
    # the image is (-180, 180]: atan2 itself has it, its negation has [-180, 180) (due south on the Kaaba's meridian becomes -180)
    negs = [x for x in subterms(deg) if x and x[0] == 'un' and x[1] == 'Neg' and
            any(y and y[0] == 'app' and y[1] == 'atan2' for y in subterms(x[2]))]
    rep.ob('R16.1', 'image-half-open-side', not negs, 'the bearing is atan2 itself: image (-180, 180]' if not negs else
           'the bearing is a negated atan2: its image is [-180, 180) - the bearing of exactly 180 degrees is reported as -180')
    # R16.2 elevation
    elev = [x for x in subterms(deg) if x and x[0] == 'field' and x[2] == 'elevation']
    rep.ob('R16.2', 'no-elevation', not elev, 'elevation does not occur in the bearing term' if not elev else 'the bearing depends on elevation')
    lat = ('field', ('field', ('param', 'coords'), 'latitude'), '0')
    lon = ('field', ('field', ('param', 'coords'), 'longitude'), '0')
    has_lat = any(x == lat for x in subterms(deg))
    has_lon = any(x == lon for x in subterms(deg))
    rep.ob('R16.2', 'depends-on-lat-lon', has_lat and has_lon, f'latitude used: {has_lat}, longitude used: {has_lon}')
    # R16.4 constants by role
    klat = [const_f64(x[2][0][2][0]) for x in subterms(deg)
            if x and x[0] == 'app' and x[1] == 'tan' and x[2][0][0] == 'app' and x[2][0][1] == 'to_radians' and const_f64(x[2][0][2][0]) is not None]
    dl = None
    for x in subterms(deg):
        if x and x[0] == 'bin' and x[1] == 'Sub' and not any(y == lat for y in subterms(x)):
            for a, b in ((x[2], x[3]), (x[3], x[2])):
                if any(y == lon for y in subterms(a)) and not any(y == lon for y in subterms(b)) and \
                        any(const_f64(y) is not None and abs(const_f64(y)) > 1 for y in subterms(b)):
                    dl = x
    klon = []
    if dl:
        for side in (dl[2], dl[3]):
            if not any(y == lon for y in subterms(side)):
                klon = [const_f64(y) for y in subterms(side) if const_f64(y) is not None and abs(const_f64(y)) > 1]
    rep.ob('R16.4', 'kaaba-latitude', bool(klat) and all(abs(k - 21.4233) <= 1e-3 for k in klat), f'tan(latK) uses {klat} (21.4233 N)')
    rep.ob('R16.4', 'kaaba-longitude', bool(klon) and all(abs(k - 39.8233) <= 1e-3 for k in klon), f'delta-longitude uses {klon} (39.8233 E)')
    # R16.6 a remainder / wrap applied to the longitude (difference) must have the period of the trigonometric functions
    import math as _math
    normp = {}
    try:
        from . import modular as _modular
        normp = dict(_modular.normaliser_periods(ctx))
    except Exception:
        normp = {}
    n_wraps = 0
    for x in subterms(deg):
        k = None
        arg = None
        if x and x[0] == 'bin' and x[1] == 'Rem' and const_f64(x[3]) is not None:
            k, arg = abs(const_f64(x[3])), x[2]
        elif x and x[0] == 'app' and (x[1] == 'rem_euclid' or x[1].endswith('::rem_euclid')) and len(x[2]) == 2 and const_f64(x[2][1]) is not None:
            k, arg = abs(const_f64(x[2][1])), x[2][0]
        elif x and x[0] == 'app' and x[1] in normp and x[2]:
            k, arg = float(normp[x[1]]), x[2][0]
        if k is None or not any(y == lon for y in subterms(arg)):
            continue
        n_wraps += 1
        in_rad = any(y and y[0] == 'app' and y[1] == 'to_radians' for y in subterms(arg))
        period = 2 * _math.pi if in_rad else 360.0
        ratio = k / period
        okp = abs(ratio - round(ratio)) < 1e-9 and round(ratio) >= 1
        rep.ob('R16.6', 'longitude-wrap-period', okp,
               f'wrap of period {k:g} on the longitude difference is compatible with the period {period:g} of sin/cos' if okp else
               f'the longitude difference is reduced modulo {k:g}, but sin/cos need a multiple of {period:g}: differences beyond '
               f'{k:g} (sites past the Kaaba\'s antimeridian) get a different bearing')
    # ... the same for a wrap written as a conditional shift: `if d < -180 { d + k } else { d }` must shift by a whole number of periods
    for x in subterms(deg):
        if not (x and x[0] == 'ite'):
            continue
        for shifted, plain in ((x[2], x[3]), (x[3], x[2])):
            if not (isinstance(shifted, tuple) and shifted and shifted[0] == 'bin' and shifted[1] in ('Add', 'Sub')):
                continue
            k = None
            if shifted[2] == plain and const_f64(shifted[3]) is not None:
                k = abs(const_f64(shifted[3]))
            elif shifted[1] == 'Add' and shifted[3] == plain and const_f64(shifted[2]) is not None:
                k = abs(const_f64(shifted[2]))
            if k is None or k == 0 or not any(y == lon for y in subterms(plain)):
                continue
            n_wraps += 1
            in_rad = any(y and y[0] == 'app' and y[1] == 'to_radians' for y in subterms(plain))
            period = 2 * _math.pi if in_rad else 360.0
            ratio = k / period
            okp = abs(ratio - round(ratio)) < 1e-9 and round(ratio) >= 1
            rep.ob('R16.6', 'longitude-shift-period', okp,
                   f'conditional shift by {k:g} of the longitude difference is a whole number of periods ({period:g})' if okp else
                   f'the longitude difference is shifted by {k:g} on one side of a comparison, but sin/cos need a multiple of {period:g}: '
                   'sites beyond the comparison get a different bearing')
    rep.extra['longitude_wraps'] = n_wraps
    # R16.5 mirror antisymmetry and sign convention
    if dl is not None:
        par = D.parity(deg, {dl})
        rep.ob('R16.5', 'east-west-antisymmetry', True if par == D.ODD else (False if par in (D.EVEN, D.ASYM) else None),
               f'bearing is {par} under delta-longitude -> -delta-longitude (must be odd)')
        # numerator of atan2 must increase with the site's longitude: sin(lon - lonK)
        if top_atan2:
            y = inner[2][0]
            oky = y == ('app', 'sin', (dl,)) and dl[2] == ('app', 'to_radians', (lon,))
            flipped = y == ('app', 'sin', (dl,)) and False
            if oky:
                rep.ob('R16.5', 'sign-convention', True, 'atan2 numerator is sin(lon - lonK): sites east of the Kaaba get a positive (counter-clockwise) angle')
            else:
                # lonK - lon gives the opposite sign: definite when the numerator is sin of the reversed difference
                rev = [x for x in subterms(y) if x and x[0] == 'bin' and x[1] == 'Sub' and any(z == lon for z in subterms(x[3]))
                       and not any(z == lon for z in subterms(x[2]))]
                rep.ob('R16.5', 'sign-convention', False if rev else None,
                       f'atan2 numerator is {show(y, maxd=4)[:100]}' + (' - the longitude difference is reversed (lonK - lon)' if rev else ''))
    else:
        rep.ob('R16.5', 'delta-longitude', None, 'longitude difference term not found')
    # R16.7 the atan2 arguments against the great-circle bearing formula, and the north/south mirror
    parl = D.parity(deg, {lat})
    rep.ob('R16.7', 'north-south-mirror', True if parl == D.ASYM else (False if parl in (D.EVEN, D.ODD) else None),
           'the bearing changes, and not just in sign, when the latitude is mirrored (cos(lat) tan(latK) is even, sin(lat) cos(dLon) is odd)'
           if parl == D.ASYM else
           f'the bearing is {parl} under latitude -> -latitude: a site and its mirror image across the equator get '
           f'{"the same" if parl == D.EVEN else "opposite"} bearings, which the great-circle formula does not allow')
    if top_atan2 and dl is not None and klat:
        from .. import formula as F
        Lr = ('app', 'to_radians', (lat,))
        Kr = None
        for x in subterms(deg):
            if x and x[0] == 'app' and x[1] == 'tan' and x[2][0][0] == 'app' and x[2][0][1] == 'to_radians' and const_f64(x[2][0][2][0]) is not None:
                Kr = x
        n_ref = ('app', 'sin', (dl,))
        d_ref = ('bin', 'Sub', ('bin', 'Mul', ('app', 'cos', (Lr,)), Kr), ('bin', 'Mul', ('app', 'sin', (Lr,)), ('app', 'cos', (dl,))))
        cn = F.Canon()
        pn, pd, rn, rd = (cn.cf(E.intern(t)) for t in (inner[2][0], inner[2][1], n_ref, d_ref))
        if F.poly_eq(pn, rn) and F.poly_eq(pd, rd):
            res = True
            why = 'atan2(sin dLon, cos(lat) tan(latK) - sin(lat) cos dLon), term by term'
        else:
            cross = F.padd(F.pmul(pn, rd), F.pmul(pd, rn), -1.0)
            cross = {m: c for m, c in cross.items() if abs(c) > 1e-9}
            ref_atoms = F.atom_skels(rn) | F.atom_skels(rd)
            got_atoms = F.atom_skels(pn) | F.atom_skels(pd)
            if not cross:
                res, why = None, 'the atan2 arguments are proportional to the reference pair; the sign of the common factor is not decided'
            elif got_atoms <= ref_atoms:
                res = False
                why = (f'the atan2 arguments are ({show(inner[2][0], maxd=4)[:80]}, {show(inner[2][1], maxd=5)[:140]}): over the same '
                       'sines and cosines they are not proportional to (sin dLon, cos(lat) tan(latK) - sin(lat) cos dLon)')
            else:
                res, why = None, f'the atan2 arguments use other terms than the reference formula: {show(inner[2][1], maxd=4)[:120]}'
        rep.ob('R16.7', 'bearing-formula', res, why)
    else:
        rep.ob('R16.7', 'bearing-formula', None, 'atan2 / delta-longitude / tan(latK) not recognised')
    # R16.3 label and text
    rot = ctx.pub_fn('rotation', 'Qibla')
    eng2 = ctx.engine()
    tree2 = eng2.call_entry(rot, eng2.sym_args(rot, ['self']))
    lv2 = list(E.leaves_of(tree2))
    ok = False
    detail = ''
    if len(lv2) == 1:
        r = lv2[0].ret
        detail = show(r)[:120]
        if r[0] == 'ite' and r[1][0] == 'bin' and r[1][2] == ('field', ('param', 'self'), dname) and const_f64(r[1][3]) == 0.0:
            op = r[1][1]
            t, f = r[2], r[3]
            if op in ('Lt', 'Le'):
                ok = t[0] == 'enum' and t[2] == 'Cw' and f[0] == 'enum' and f[2] == 'Ccw'
            elif op in ('Gt', 'Ge'):
                ok = t[0] == 'enum' and t[2] == 'Ccw' and f[0] == 'enum' and f[2] == 'Cw'
    rep.ob('R16.3', 'rotation-label', ok, f'rotation() = {detail} (negative => Cw, otherwise Ccw)')
    fmt = [p for p, b in ctx.lib.bodies.items() if (b.impl_of or {}).get('self_ty', '').endswith('::Qibla') and
           (b.impl_of.get('trait') or '').endswith('fmt::Display') and last_seg(p) == 'fmt']
    if len(fmt) == 1:
        b = ctx.lib.bodies[fmt[0]]
        names = [callee_name(t) or '' for _, t in b.calls()]
        has_abs = any(n.endswith('<impl f64>::abs') for n in names)
        has_rot = rot in names
        rep.ob('R16.3', 'display-magnitude-and-label', has_abs and has_rot,
               f'Display prints |{dname}| ({has_abs}) and rotation() ({has_rot})')
        # R16.8 the label is printed whole whatever the caller's format options: `Formatter::pad` (and str's Display, which is
        # `pad`) cuts its argument to the precision in force, so it may only be reached through a fresh `{}` of write!/format_args!,
        # never with the formatter Qibla's own Display was handed (that one carries the caller's `{:.N}`)
        chain, todo = [], [fmt[0]]
        while todo:
            f_ = todo.pop()
            if f_ in chain:
                continue
            chain.append(f_)
            for _, t in ctx.lib.bodies[f_].calls():
                n = callee_name(t) or ''
                cb = ctx.lib.bodies.get(n)
                if cb is not None and cb.impl_of and (cb.impl_of.get('trait') or '').endswith('fmt::Display') and last_seg(n) == 'fmt':
                    todo.append(n)
        cut = []
        for f_ in chain:
            for _, t in ctx.lib.bodies[f_].calls():
                n = callee_name(t) or ''
                if n.endswith("Formatter::<'a>::pad") or n.endswith('Formatter::pad') or n in (
                        '<str as std::fmt::Display>::fmt', '<std::string::String as std::fmt::Display>::fmt',
                        '<str as core::fmt::Display>::fmt', '<alloc::string::String as core::fmt::Display>::fmt'):
                    cut.append((f_, n))
        reads = [f_ for f_ in chain for _, t in ctx.lib.bodies[f_].calls()
                 if (callee_name(t) or '').endswith("Formatter::<'a>::precision") or (callee_name(t) or '').endswith('Formatter::precision')]
        # definite only as a contradiction: the same formatter's precision is read as a number of decimals in one place and
        # acts as a maximum length in another; a `pad` alone gives `{:.N}` the meaning it has for strings (not decided)
        rep.ob('R16.8', 'label-printed-whole', True if not cut else (False if reads else None),
               f'no text of the Qibla rendering goes through a precision-sensitive sink with the caller\'s formatter ({len(chain)} fmt bodies)'
               if not cut else
               f'{cut[0][0]} calls {cut[0][1]} with the formatter handed to Qibla\'s Display (directly delegated, {len(chain)} fmt bodies in '
               'the chain): under `{:.N}` the text is cut to N characters - the rotation label loses its letters',
               where=ctx.lib.bodies[cut[0][0]].span if cut else None)
    else:
        rep.ob('R16.3', 'display', None, 'Display impl not found')
