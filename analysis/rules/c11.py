"""C11 - rounding follows the selected policy exactly.

Decision table extracted by abstract interpretation of the time converter for
all 4 modes x 7 prayer keys (exhaustive over the finite part); the numeric input
hour stays symbolic.
"""
from ..context import PRAYERS, SIX, AnchorLost
from .. import engine as E
from ..engine import is_const, cval
from .. import domains as D
from ..terms import show, subterms
from .common import const_f64

FIVE = ['Fajr', 'Dhuhr', 'Asr', 'Maghrib', 'Isha']
EXPECT = {
    'None': {k: ('none',) for k in SIX},
    'NormalRounding': {k: ('round', 30.0) for k in SIX},
    'SpecialRounding': dict({k: ('round', 30.0) for k in FIVE}, Shurooq=('drop',)),
    'AggressiveRounding': dict({k: ('round', 1.0) for k in FIVE}, Shurooq=('drop',)),
}


def frac_of(t):
    """x if t is x - floor(x) (or x.fract()), else None"""
    if isinstance(t, tuple) and t:
        if t[0] == 'bin' and t[1] == 'Sub' and t[3] == ('app', 'floor', (t[2],)):
            return t[2]
        if t[0] == 'app' and t[1] == 'fract' and len(t[2]) == 1:
            return t[2][0]
    return None


def times60_frac(t):
    """x if t is 60 * frac(x)"""
    if isinstance(t, tuple) and t and t[0] == 'bin' and t[1] == 'Mul':
        for a, b in ((t[2], t[3]), (t[3], t[2])):
            if const_f64(b) == 60.0:
                x = frac_of(a)
                if x is not None:
                    return x
    return None


def strip_cast(t):
    while isinstance(t, tuple) and t and t[0] == 'cast':
        t = t[2]
    return t


def wrap24_of(t):
    """X if t is `if X >= 24 { X % 24 } else { X }` or the unconditional `X % 24` (X is non-negative there)"""
    if isinstance(t, tuple) and t and t[0] == 'bin' and t[1] == 'Rem' and const_f64(t[3]) == 24.0:
        return t[2]
    if isinstance(t, tuple) and t and t[0] == 'app' and t[1] == 'rem_euclid' and len(t[2]) == 2 and const_f64(t[2][1]) == 24.0:
        return t[2][0]
    if isinstance(t, tuple) and t and t[0] == 'ite':
        c, a, b = t[1], t[2], t[3]
        if c[0] == 'bin' and c[1] == 'Ge' and const_f64(c[3]) == 24.0 and c[2] == b:
            if a[0] == 'bin' and a[1] == 'Rem' and a[2] == b and const_f64(a[3]) == 24.0:
                return b
            if a[0] == 'app' and a[1] == 'rem_euclid' and a[2][0] == b and const_f64(a[2][1]) == 24.0:
                return b
    return None


def nonneg_wrap_of(t):
    """(h0, ok) if t is h0 made non-negative by adding 24 while negative"""
    if not (isinstance(t, tuple) and t and t[0] == 'ite'):
        # no wrap as the last step: acceptable only if the value cannot be negative
        from ..rules import c14 as _c14
        lb = _c14.lower_bound(t)
        if lb is not None and lb >= 0:
            return t, None
        return None, ('the hour whose minutes and seconds are taken is not wrapped into [0, 24): negative values (after the minute '
                      'offset) are not moved by +24: ' + show(t, maxd=4)[:120])
    c = t[1]
    if not (c[0] == 'bin' and c[1] == 'Lt' and const_f64(c[3]) == 0.0 and c[2] == t[3]):
        return None, 'negative-hour guard is not `hour < 0`'
    h0 = t[3]
    # every leaf of the true branch is h0 + 24*k or the loop abstraction of h0
    st = [t[2]]
    while st:
        x = st.pop()
        if x[0] == 'ite':
            st += [x[2], x[3]]
        elif x[0] == 'loopval':
            if x[2] != h0:
                return None, 'loop does not start from the unwrapped hour'
        else:
            y = x
            n = 0
            while y[0] == 'bin' and y[1] == 'Add' and const_f64(y[3]) == 24.0 and n < 40:
                y = y[2]
                n += 1
            if y != h0 or n == 0:
                return None, f'negative hours are not moved by +24: {show(x, maxd=4)[:100]}'
    return h0, None


def run(ctx, rep):
    rep.explanation = (
        'Decision table of the time converter extracted statically for all 4 rounding modes x the 6 map keys (Imsaak is '
        'converted under the Fajr key): action (none / round-up at threshold c / drop seconds), comparison operator, carry '
        'constant, minute recomputation from the carried hour, the >=24 and <0 wraps, and the offset key. Exhaustive over the '
        'finite part; floating-point behaviour at exact second boundaries is not decided.')
    rep.trusted = ['rustc MIR', 'f64 floor/rem semantics', 'chrono NaiveTime::from_hms_opt']
    conv = ctx.role('time_converter')
    body = ctx.lib.bodies[conv]
    modes = ctx.variants('RoundSeconds')
    rep.floor('rounding modes', len(modes), 4)
    for m in modes:
        if m not in EXPECT:
            rep.ob('R11.0', f'mode:{m}', False, 'rounding mode without a documented action')
    radt = ctx.lib.adts[ctx.adt('RoundSeconds')]
    rs_term = ('discr', ('field', ('param', 'params'), 'round_seconds'))
    # which parameter is which
    idx_p = idx_k = idx_h = None
    for i in range(1, body.arg_count + 1):
        ty = body.locals[i]
        if (ty.get('ref') or {}).get('adt') == ctx.adt('Params'):
            idx_p = i - 1
        elif ty.get('adt') == ctx.adt('Prayer'):
            idx_k = i - 1
        elif ty['s'] == 'f64':
            idx_h = i - 1
    if None in (idx_p, idx_k, idx_h):
        raise AnchorLost('time converter signature')
    n_cells = 0
    for vi, var in enumerate(radt['variants']):
        mode = var['name']
        for k in SIX:
            eng = ctx.engine()
            args = [None] * body.arg_count
            args[idx_p] = E.mk_ref(('S', ('param', 'params')), ())
            args[idx_k] = ctx.prayer_key(k)
            args[idx_h] = ('param', 'hour')
            tree = eng.call_entry(conv, args, asm={rs_term: int(var['discr'])})
            lv = list(E.leaves_of(tree))
            key = f'{mode}:{k}'
            if len(lv) != 1:
                rep.ob('R11.1', key, None, f'{len(lv)} outcomes')
                continue
            ret = eng.force(lv[0], lv[0].ret) if lv[0].ret[0] != 'ite' else lv[0].ret
            # the value is the Some payload of NaiveTime::from_hms_opt(h, m, s)
            app = None
            for x in subterms(ret):
                if x and x[0] == 'app' and x[1].endswith('NaiveTime::from_hms_opt'):
                    app = x
                    break
            if app is None:
                rep.ob('R11.1', key, False, f'result is not built by NaiveTime::from_hms_opt: {show(ret)[:120]}')
                continue
            n_cells += 1
            H, M, S = (strip_cast(E.specialise(a, lv[0].asm)) for a in app[2])
            # R11.7 the three operands of from_hms_opt are bounded on this path (the Some payload is unwrapped)
            facts = {}
            for c_, v_ in lv[0].asm.items():
                if isinstance(v_, bool):
                    facts.update(D.facts_from_cond(c_, v_))
            badb = []
            for arg, lim, nm in zip((H, M, S), (24.0, 60.0, 60.0), ('hour', 'minute', 'second')):
                ub = D.upper_bound(arg, facts)
                if ub is None or ub[0] > lim or (ub[0] == lim and not ub[1]):
                    badb.append(f'{nm} operand has no bound < {lim:g} (got {ub}): {show(arg, maxd=4)[:100]}')
            rep.ob('R11.7', f'{key}:operands-bounded', not badb, 'hour < 24, minute < 60, second < 60: from_hms_opt cannot return None'
                   if not badb else '; '.join(badb[:2]))
            X = wrap24_of(H)
            if X is None:
                rep.ob('R11.4', f'{key}:wrap24', False, f'hour operand is not `if h >= 24 {{ h % 24 }} else {{ h }}`: {show(H, maxd=5)[:160]}')
                continue
            rep.ob('R11.4', f'{key}:wrap24', True, 'hours >= 24 wrap modulo 24 (carry through midnight)')
            Xm = times60_frac(M)
            ok = Xm is not None and Xm == X
            rep.ob('R11.3', f'{key}:minute-from-carried-hour', ok,
                   'minute = 60*frac(h) of the same (possibly carried) hour' if ok else
                   f'minute operand is not recomputed from the carried hour: {show(M, maxd=5)[:160]}')
            # rounding decision
            action = None
            base = X
            cond = None
            if X[0] == 'ite' and X[1][0] == 'bin' and X[1][1] in ('Ge', 'Gt', 'Le', 'Lt', 'Eq', 'Ne') and const_f64(X[1][3]) is not None \
                    and X[2][0] == 'bin' and X[2][1] == 'Add' and X[2][2] == X[3]:
                cond = X[1]
                base = X[3]
                carry = const_f64(X[2][3])
                action = ('round', const_f64(cond[3]))
                okc = carry is not None and abs(carry - 1.0 / 60.0) < 1e-15
                rep.ob('R11.2', f'{key}:carry', okc, f'carry adds {carry} h (one minute = {1/60})')
                rep.ob('R11.2', f'{key}:comparison', cond[1] == 'Ge', f'threshold comparison is {cond[1]} (documented: >=)')
                sec_src = times60_frac(cond[2])
                min_src = times60_frac(sec_src) if sec_src is not None else None
                oks = min_src is not None and min_src == base
                rep.ob('R11.2', f'{key}:seconds-tested', oks,
                       'the tested seconds are those of the unrounded time' if oks else
                       f'rounding tests {show(cond[2], maxd=5)[:140]}')
            s0 = const_f64(S)
            if action is None:
                if s0 == 0.0:
                    action = ('drop',)
                else:
                    ms = times60_frac(S)
                    mm = times60_frac(ms) if ms is not None else None
                    if mm is not None and mm == base:
                        action = ('none',)
                    else:
                        action = ('?', show(S, maxd=4)[:80])
            else:
                rep.ob('R11.2', f'{key}:seconds-zeroed', s0 == 0.0, f'seconds after rounding: {show(S)[:60]}')
            exp = EXPECT.get(mode, {}).get(k)
            rep.ob('R11.1', key, action == exp, f'action {action}, documented {exp}')
            # negative wrap and offset key
            h0, err = nonneg_wrap_of(base)
            if err:
                rep.ob('R11.4', f'{key}:wrap-negative', False, err)
                h0 = None
            elif h0 is not None:
                rep.ob('R11.4', f'{key}:wrap-negative', True, 'negative hours are moved by +24 until non-negative')
            if h0 is not None:
                want = ('mapget', ('field', ('param', 'params'), 'minutes'), ctx.prayer_key(k))
                reads = [x for x in subterms(h0) if x and x[0] == 'mapget']
                okk = reads == [want] or (len(reads) >= 1 and all(r == want for r in reads))
                rep.ob('R11.5', f'{key}:offset-key', okk,
                       f'offset read is params.minutes[{k}]' if okk else f'offset reads {[show(r) for r in reads]}')
                okh = any(x == ('param', 'hour') for x in subterms(h0))
                rep.ob('R11.5', f'{key}:input-hour', okh, 'the unrounded hour enters the result')
            if vi == 0 and k == 'Fajr':
                rep.sample({'cell': key, 'H': show(H, maxd=6)[:300], 'M': show(M, maxd=4)[:200], 'S': show(S, maxd=4)[:200]})
            if eng.incomplete:
                rep.ob('engine', f'incomplete:{key}', None, str(eng.incomplete[:2]))
    rep.floor('decision-table cells', n_cells, 24)
    rep.extra['cells'] = n_cells
    rep.extra['exhaustive'] = True
    # Imsaak is converted under the Fajr key; the converter is called with the map key for the six
    from . import c07
    eng2, tree2 = c07.dt_level(ctx, interest={conv})
    keys = {}
    for e in eng2.log:
        if e['kind'] == 'call' and e['callee'] == conv:
            kv = eng2.force(E.State(), e['args'][idx_k]) if e['args'][idx_k][0] != 'ite' else e['args'][idx_k]
            caller = e['stack'][-1][0] if e['stack'] else '?'
            keys.setdefault(kv[2] if kv[0] == 'enum' else show(kv)[:40], set()).add(e['site'][0])
    ok6 = set(keys) >= set(SIX) and set(keys) <= set(SIX)
    rep.ob('R11.6', 'converter-keys', ok6, f'converter is called with keys {sorted(keys)}')
    rep.floor('converter call keys', len(keys), 6)
    # Imsaak has no conversion of its own: it must be the converter's output for the rerun's Fajr under the perturbed
    # parameters (an offset applied to the finished clock time would escape the rounding)
    from . import shared, imsaak as _imsaak
    shared.include(ctx, rep, lambda c_, r_: _imsaak.check(c_, r_, 'R11.8'), {'R11.8'},
                   keys=lambda k: k in ('imsaak:is-rerun-fajr', 'imsaak:only-fajr-entries', 'imsaak:params-shape', 'imsaak:entry-is-builder-value'),
                   why='Imsaak is rounded by the same converter')
