"""C19 - the CLI reports what the library computes; saved parameters reproduce it (partial: wiring)."""
from ..context import AnchorLost, last_seg
from .. import engine as E
from ..facts import callee_name
from ..terms import show, subterms


def find_adt(facts, name):
    c = [p for p in facts.adts if last_seg(p) == name]
    return c[0] if len(c) == 1 else None


def run(ctx, rep):
    rep.explanation = (
        'Wiring of the binary crate decided on MIR: the coordinate/offset fields of the argument struct have the validated '
        'newtypes as their types and reach Coordinates::new / Location unmodified; method -> Params::new, start/end dates -> '
        'the range (defaults as documented); argument parsing precedes the library call and the file route goes through '
        'serde_json::from_str of the same ParamsConfig type whose failure diverges; the value written / listed is the library '
        'call\'s return value computed from the one ParamsConfig; the -p file is the serialisation of that same ParamsConfig. '
        'JSON bytes, exit codes and terminal text are clap/serde/std semantics: not decided.')
    rep.trusted = ['rustc MIR', 'clap derive parses each field through the FromStr of its type (C18)', 'serde derive symmetry']
    B = ctx.bin
    cli = find_adt(B, 'CliArgs')
    cfg = find_adt(B, 'ParamsConfig')
    if not cli or not cfg:
        raise AnchorLost('CliArgs / ParamsConfig types')
    fields = {f['name']: f['ty']['s'] for f in B.adts[cli]['variants'][0]['fields']}
    rep.sample({'CliArgs': fields})
    want_ty = {'gmt': 'Gmt', 'latitude': 'Latitude', 'longitude': 'Longitude', 'elevation': 'Elevation'}
    by_ty = {}
    for f, ty in fields.items():
        for nm in want_ty.values():
            if ty.endswith('::' + nm) or ty.endswith('::' + nm + '>'):
                by_ty.setdefault(nm, []).append(f)
    for nm in want_ty.values():
        rep.ob('R19.1', f'field-type:{nm}', len(by_ty.get(nm, [])) == 1,
               f'argument struct has exactly one field of the validated type {nm}: {by_ty.get(nm)}' if len(by_ty.get(nm, [])) == 1 else
               f'no argument field is typed {nm} (fields: {fields}): raw values would bypass the range check')
    f_lat, f_lon, f_elev, f_gmt = (by_ty.get(n, [None])[0] for n in ('Latitude', 'Longitude', 'Elevation', 'Gmt'))
    f_method = [f for f, ty in fields.items() if ty.endswith('::Method')]
    f_dates = [f for f, ty in fields.items() if 'NaiveDate' in ty]
    rep.floor('date arguments', len(f_dates), 2)

    # ---- abstract run of main -------------------------------------------------------------------
    eng = ctx.engine(facts=B, opaque_roles=())
    calls = []

    def hook(eng, st, fr, t, name, args):
        short = name
        if any(name.endswith(x) for x in ('Parser::parse', 'Params::new', 'Coordinates::new', 'prayer_times_dt_rng_block',
                                          'serde_json::to_writer', 'serde_json::from_str', 'prayer_times_dt_rng')) or \
                'DateRange as std::convert::From' in name or name in B.bodies:
            calls.append((name, tuple(eng.purify(st, a) for a in args), dict(st.asm), fr.body.path,
                          t['callee'].get('gargs')))
        return None
    eng.hooks['call'] = hook
    tree = eng.call_entry('main', [])
    nleaves = sum(1 for _ in E.leaves_of(tree))
    rep.floor('outcomes of main', nleaves, 3)
    if eng.incomplete:
        rep.ob('engine', 'incomplete', None, str(eng.incomplete[:2]))
    CLI = None
    for (n, a, asm, fn, ga) in calls:
        if n.endswith('Parser::parse'):
            CLI = ('app', n, ())
    rep.ob('R19.3', 'arguments-parsed', CLI is not None, 'main parses the command line (clap Parser::parse)')
    if CLI is None:
        return

    def fld(name):
        return ('field', CLI, name)

    def some(t):
        return ('field', ('as', t, 'Some'), '0')

    libcalls = [c for c in calls if c[0].endswith('prayer_times_dt_rng_block') or c[0].endswith('::prayer_times_dt_rng')]
    rep.floor('library range calls', len(libcalls), 2)
    n_cli = n_file = 0
    for (n, a, asm, fn, ga) in libcalls:
        # R19.3 dominance: the arguments are derived from the parsed command line
        dep = any(x == CLI for x in subterms(a))
        rep.ob('R19.3', 'parse-dominates-library-call', dep, 'library arguments derive from the parsed arguments' if dep else
               'the library is called with values that do not come from the parsed arguments')
        params, loc, dr = a[0], a[1], a[2]
        file_route = any(x and x[0] == 'app' and x[1].endswith('serde_json::from_str') for x in subterms(a))
        if file_route:
            n_file += 1
            # all three come from the one deserialised ParamsConfig
            roots = set()
            for v in (params, loc, dr):
                for x in subterms(v):
                    if x and x[0] == 'app' and x[1].endswith('serde_json::from_str'):
                        roots.add(x)
            okf = len(roots) == 1
            rep.ob('R19.4', 'file-route-one-config', okf, 'params, location and dates come from the one deserialised ParamsConfig' if okf
                   else f'{len(roots)} different deserialised values feed the call')
            src = next(iter(roots))
            okp = any(x == fld('input_file_path') or (x and x[0] == 'app' and 'read_to_string' in x[1]) for x in subterms(src))
            rep.ob('R19.3', 'file-route-source', okp, 'the JSON text is the content of the -i file')
            continue
        n_cli += 1
        # R19.2 / R19.1 wiring on the CLI route
        okm = params[0] == 'app' and params[1].endswith('Params::new') and f_method and params[2] == (fld(f_method[0]),)
        rep.ob('R19.2', 'method', bool(okm), 'params = Params::new(args.method)' if okm else f'params = {show(params, maxd=4)[:120]}')
        okl = False
        detail = show(loc, maxd=5)[:200]
        if loc[0] == 'enum' and len(loc[4]) == 2:
            co, gm = loc[4]
            if co[0] == 'app' and co[1].endswith('Coordinates::new') and len(co[2]) == 3:
                la, lo, el = co[2]
                okl = la == some(fld(f_lat)) and lo == some(fld(f_lon)) and el == fld(f_elev) and gm == some(fld(f_gmt))
                detail = f'Coordinates::new({show(la, maxd=3)[:50]}, {show(lo, maxd=3)[:50]}, {show(el, maxd=3)[:40]}), gmt {show(gm, maxd=3)[:40]}'
        rep.ob('R19.1', 'location-wiring', okl, ('validated latitude, longitude, elevation and offset reach the location unmodified: '
                                                 if okl else 'location is not built from the validated arguments: ') + detail)
        # dates
        rg = None
        for x in subterms(dr):
            if x and x[0] == 'rangeincl':
                rg = x
        okd = False
        detail = show(dr, maxd=5)[:200]
        if rg is not None:
            s0, e0 = rg[1], rg[2]
            starts = [f for f in f_dates if 'start' in f]
            ends = [f for f in f_dates if 'end' in f]
            if starts and ends:
                fs, fe = fld(starts[0]), fld(ends[0])
                s_ok = s0 == some(fs) or (s0[0] == 'ite' and some(fs) in (s0[2], s0[3]))
                e_uses_end = any(x == fe for x in subterms(e0))
                e_default_is_start = any(x == fs for x in subterms(e0)) or not (e0[0] == 'ite')
                s_uses_end = any(x == fe for x in subterms(s0))
                okd = s_ok and e_uses_end and not s_uses_end
                detail = f'start = {show(s0, maxd=4)[:80]}, end = {show(e0, maxd=4)[:80]}'
        rep.ob('R19.2', 'dates', okd, ('range is start_date..=end_date (defaults: today / start): ' if okd else 'date wiring: ') + detail)
    rep.floor('CLI-route library calls', n_cli, 1)
    rep.floor('file-route library calls', n_file, 1)

    # ---- R19.4 output passthrough ----------------------------------------------------------------------
    n_out = 0
    for (n, a, asm, fn, ga) in calls:
        if n.endswith('serde_json::to_writer'):
            v = a[1]
            if v[0] == 'app' and (v[1].endswith('prayer_times_dt_rng_block') or v[1].endswith('prayer_times_dt_rng')):
                n_out += 1
                rep.ob('R19.4', 'json-is-library-result', True, 'the value serialised with -o is the library call\'s return value')
            elif v[0] == 'enum' and last_seg(v[1]) == 'ParamsConfig':
                # R19.5: the -p file is the very ParamsConfig used for the computation
                used = [c for c in libcalls if c[1][0] == v[4][0] and c[1][1] == v[4][1]]
                rep.ob('R19.5', 'params-file-is-the-config-used', bool(used),
                       'the parameter file is the serialisation of the ParamsConfig handed to the library' if used else
                       'the parameter file does not contain the parameters the computation uses')
                # ... and its date range is the range the computation used (a file that drops or alters the dates reproduces another listing)
                for c in used[:1]:
                    sr = v[4][2] if len(v[4]) > 2 else None
                    okr = bool(sr) and sr[0] == 'enum' and sr[2] == 'Some' and len(c[1]) > 2 and sr[4] and sr[4][0] == c[1][2]
                    rep.ob('R19.5', 'params-file-has-the-dates-used', okr,
                           'the saved date range is Some(the range handed to the library)' if okr else
                           f'the saved date range is {show(sr, maxd=3)[:120]}, the computation used {show(c[1][2], maxd=3)[:80] if len(c[1]) > 2 else None}: '
                           'reading the file back reproduces a different listing')
            else:
                rep.ob('R19.4', 'json-is-library-result', False, f'the value serialised is {show(v, maxd=3)[:120]}, not the library result')
        if n in B.bodies and 'terminal' in n:
            v = a[0]
            ok = v[0] == 'app' and (v[1].endswith('prayer_times_dt_rng_block') or v[1].endswith('prayer_times_dt_rng'))
            rep.ob('R19.4', 'listing-is-library-result', ok, 'the terminal listing receives the library call\'s return value' if ok else
                   f'listing receives {show(v, maxd=3)[:100]}')
    rep.floor('JSON output sites', n_out, 1)
    # ---- R19.5 serde symmetry -----------------------------------------------------------------------------
    ser = [im for im in B.impls if im['self_ty'].endswith('ParamsConfig') and (im['trait'] or '').endswith('Serialize')]
    de = [im for im in B.impls if im['self_ty'].endswith('ParamsConfig') and (im['trait'] or '').endswith("Deserialize<'de>") or
          (im['self_ty'].endswith('ParamsConfig') and 'Deserialize' in (im['trait'] or ''))]
    rep.ob('R19.5', 'config-serde-derives', bool(ser) and bool(de) and all(i['derived'] for i in ser + de),
           f'ParamsConfig derives Serialize ({len(ser)}) and Deserialize ({len(de)})')
    from_str_ty = [ga for (n, a, asm, fn, ga) in calls if n.endswith('serde_json::from_str')]
    okt = bool(from_str_ty) and all(g and any('ParamsConfig' in x for x in g) for g in from_str_ty)
    rep.ob('R19.5', 'file-read-type', okt, f'the -i file is deserialised as {from_str_ty[:1]}')

    # ---- R19.6 the listing prints every entry (valid or not) ---------------------------------------------------
    for p, b in B.bodies.items():
        if b.kind != 'Fn' or 'terminal' not in p:
            continue
        loops = b.natural_loops()
        printing = {bi for bi, t in b.calls() if (callee_name(t) or '').endswith('io::_print')}
        n_loops = 0
        for h, blocks in loops.items():
            nexts = [bi for bi in blocks if b.blocks[bi]['term']['k'] == 'call' and (callee_name(b.blocks[bi]['term']) or '').endswith('::next')]
            if not nexts:
                continue
            n_loops += 1
            # from the Some-branch of the element switch, every path back to the header passes a print
            sw = [bi for bi in blocks if b.blocks[bi]['term']['k'] == 'switch' and any(v == 1 for v, _ in b.blocks[bi]['term']['targets'])]
            ok = None
            for bi in sw:
                tgt = [t for v, t in b.blocks[bi]['term']['targets'] if v == 1]
                if not tgt or not b.dominates(nexts[0], bi):
                    continue
                # DFS avoiding printing blocks
                seen = set()
                st = [tgt[0]]
                reach_header = False
                while st:
                    x = st.pop()
                    if x in seen or x not in blocks:
                        continue
                    seen.add(x)
                    if x in printing:
                        continue
                    for sx in b.succs(x):
                        if sx == h:
                            reach_header = True
                        st.append(sx)
                ok = not reach_header
                break
            rep.ob('R19.6', f'listing-prints-every-element:{last_seg(p)}:loop', ok,
                   'every iteration of the listing loop prints a line' if ok else
                   'an element of the result can be skipped without printing anything (e.g. Invalid entries vanish from the listing)')
        rep.floor('listing loops', n_loops, 2)
    # ---- R19.7 output files are created truncating ----------------------------------------------------------------
    for (n, a, asm, fn, ga) in calls:
        if n.endswith('serde_json::to_writer'):
            w = a[0]
            creates = [x for x in subterms(w) if x and x[0] == 'app' and x[1].endswith('fs::File::create')]
            opens = [x for x in subterms(w) if x and x[0] == 'app' and x[1].endswith('OpenOptions::open')]
            trunc = [x for x in subterms(w) if x and x[0] == 'app' and x[1].endswith('OpenOptions::truncate')]
            if creates:
                rep.ob('R19.7', f'output-truncated:{fn}', True, 'written through File::create (truncates an existing file)')
            elif opens:
                rep.ob('R19.7', f'output-truncated:{fn}', bool(trunc),
                       'OpenOptions with truncate(true)' if trunc else
                       'the output file is opened without truncation: stale bytes of a longer previous file survive and the JSON does not decode')
            else:
                rep.ob('R19.7', f'output-truncated:{fn}', None, f'writer {show(w, maxd=3)[:80]}')
    # ---- R19.8 the parameter file is not held to a stricter standard than the command line ------------------------------
    # what -p wrote comes from values the command line accepted; reading it back may reject only what the validated types'
    # own conversions (shared with the command line) reject.  A hand-written function on the Deserialize route (deserialize_with,
    # a manual impl) that raises an error of its own is a check the command line never made.
    from ..facts import callee_name as _cn
    L = ctx.lib
    roots = [p_ for p_, b_ in L.bodies.items() if b_.impl_of and (b_.impl_of.get('trait') or '').split('<')[0].endswith('::Deserialize')
             and last_seg(p_) == 'deserialize']
    rep.floor('Deserialize impls of the library', len(roots), 8)
    on_route = set()
    for r_ in roots:
        on_route |= L.reachable_from(r_)
    ERRS = ('de::Error::custom', 'de::Error::invalid_value', 'de::Error::invalid_type', 'de::Error::invalid_length',
            'de::Error::missing_field', 'de::Error::unknown_field', 'de::Error::unknown_variant', 'de::Error::duplicate_field')
    n_hand = 0
    for p_ in sorted(on_route):
        b_ = L.bodies.get(p_)
        if b_ is None or '::_::' in p_ or b_.derived:
            continue            # generated by the derive (inside its anonymous const)
        names_ = [(_cn(t_) or '') for _, t_ in b_.calls()]
        raises = [n_ for n_ in names_ if n_.endswith(ERRS)]
        if not raises:
            continue
        n_hand += 1
        shared_v = [n_ for n_ in names_ if n_ in L.bodies and L.bodies[n_].impl_of and
                    (L.bodies[n_].impl_of.get('trait') or '').split('<')[0].endswith(('TryFrom', 'FromStr'))]
        rep.ob('R19.8', f'file-only-rejection:{last_seg(p_)}', None if shared_v else False,
               f'{p_} raises {raises[0].split("::")[-1]} after calling the shared conversion {shared_v[0] if shared_v else ""}: not decided' if shared_v else
               f'{p_} is reached only when a parameter file is read and rejects values on its own ({raises[0].split("::")[-1]}): a file written '
               'by -p from an accepted command line can be refused by -i', where=b_.span)
    rep.extra['hand_written_rejections_on_deserialize_route'] = n_hand
    # C18 is a premise of this property (a value of a validated type is in range): its construction discipline is included
    from . import shared, c18 as _c18
    shared.include(ctx, rep, _c18.run, {'R18.1', 'R18.2', 'R18.3', 'R18.4', 'R18.5'}, why='out-of-range / non-numeric input is rejected by the type')
    # the terminal listing prints the Hijri date of every day: its conversion and printing (C17) must not fail or disagree with itself
    from . import c17 as _c17
    shared.include(ctx, rep, _c17.run, {'R17.2', 'R17.3', 'R17.4', 'R17.5', 'R17.6', 'R17.8', 'R17.10', 'R17.13', 'R17.14'}, floors=True,
                   why='the listing shows the Hijri date')

