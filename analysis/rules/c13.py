"""C13 - prayer times vary smoothly from day to day (partial: the wrap clause only)."""
from . import conv as CV
from . import modular
from . import julian
from . import shared
from . import c11 as _c11


def run(ctx, rep):
    rep.explanation = (
        'Decides only "no wrap-induced jumps": modular-angle hygiene R1.2 - every quantity that exists modulo 360 deg is consumed '
        'under a normaliser of compatible period, alone as a canonical representative, or in day-to-day differences that are made '
        'continuous for every position of the 360->0 seam. Of the Julian Day arithmetic one structural clause is decided (R13.2: the '
        'Gregorian century correction and the day count use the same shifted year). The second-difference / 4-minute bounds are '
        'numeric: not decided. Included from C11: the `None` row of the rounding table (the seconds are handed through) and the 24 h wraps.')
    rep.trusted = ['rustc MIR', 'the compared angle moves < 1.2 deg/day']
    modular.check(ctx, rep, CV.get(ctx))
    julian.check(ctx, rep, 'R13.2')
    # the property is stated for unrounded seconds: a converter that rounds, truncates or wraps the seconds in mode `None` (without
    # the carry the rounding modes have) moves single days by up to a minute; and a wrap of the hour in the wrong place is a jump of a day
    shared.include(ctx, rep, _c11.run, {'R11.1', 'R11.4'},
                   keys=lambda key: key.count(':') >= 2 or key.startswith('None:'),
                   why='unrounded seconds (mode None) are reported as computed; the 24 h wraps are where C11 says')
