"""C13 - prayer times vary smoothly from day to day (partial: the wrap clause only)."""
from . import conv as CV
from . import modular


def run(ctx, rep):
    rep.explanation = (
        'Decides only "no wrap-induced jumps": modular-angle hygiene R1.2 - every quantity that exists modulo 360 deg is consumed '
        'under a normaliser of compatible period, alone as a canonical representative, or in day-to-day differences that are made '
        'continuous for every position of the 360->0 seam. The second-difference / 4-minute bounds and the Gregorian calendar '
        'arithmetic of the Julian Day are numeric: not decided.')
    rep.trusted = ['rustc MIR', 'the compared angle moves < 1.2 deg/day']
    modular.check(ctx, rep, CV.get(ctx))
