"""C13 - prayer times vary smoothly from day to day (partial: the wrap clause only)."""
from . import conv as CV
from . import modular
from . import julian


def run(ctx, rep):
    rep.explanation = (
        'Decides only "no wrap-induced jumps": modular-angle hygiene R1.2 - every quantity that exists modulo 360 deg is consumed '
        'under a normaliser of compatible period, alone as a canonical representative, or in day-to-day differences that are made '
        'continuous for every position of the 360->0 seam. Of the Julian Day arithmetic one structural clause is decided (R13.2: the '
        'Gregorian century correction and the day count use the same shifted year). The second-difference / 4-minute bounds are '
        'numeric: not decided.')
    rep.trusted = ['rustc MIR', 'the compared angle moves < 1.2 deg/day']
    modular.check(ctx, rep, CV.get(ctx))
    julian.check(ctx, rep, 'R13.2')
