"""Conventional layer: the hours builder interpreted once on symbolic inputs."""
from .. import engine as E
from ..context import SIX, AnchorLost
from ..terms import show, subterms
from .common import ite_leaves

_CACHE = {}


class Conv:
    def __init__(self, ctx, tad_term=None):
        self.ctx = ctx
        hb = ctx.role('hours_builder')
        body = ctx.lib.bodies[hb]
        eng = ctx.engine(opaque_roles=('normalisers', 'eph_ctors'))
        args = eng.sym_args(hb)
        self.arg_names = {}
        for i in range(1, body.arg_count + 1):
            ty = body.locals[i]
            inner = ty.get('ref') or ty
            adt = inner.get('adt', '')
            if adt == ctx.adt('Params'):
                nm = 'params'
            elif adt == ctx.role('eph_type'):
                nm = 'tad'
            elif adt.endswith('Weather'):
                nm = 'weather'
            else:
                nm = body.var_name(i) or f'arg{i}'
            self.arg_names[i] = nm
            args[i - 1] = E.mk_ref(('S', ('param', nm)), ()) if 'ref' in ty else ('param', nm)
            if nm == 'tad' and tad_term is not None:
                args[i - 1] = E.mk_ref(('S', tad_term), ())
        self.eng = eng
        tree = eng.call_entry(hb, args)
        lv = list(E.leaves_of(tree))
        self.leaves = lv
        self.map = None
        self.values = {}
        if len(lv) == 1:
            r = lv[0].ret
            if isinstance(r, tuple) and r and r[0] == 'map' and r[1] is None:
                self.map = r
                for kk, vv in r[2]:
                    self.values[kk[2]] = vv
        self.panics = [e for e in eng.log if e['kind'] == 'panic']

    def guard_and_payload(self, k):
        """(guard condition | None, Ok payload term | None, shape-ok): the value must be Ok(..) on exactly one
        branch combination and Err(()) on all others; the guard is the conjunction of the conditions leading to Ok"""
        v = self.values.get(k)
        if v is None:
            return None, None, False
        if v[0] == 'enum' and v[2] == 'Ok':
            return None, v[4][0], True
        lv = list(ite_leaves(v))
        oks = [(c, x) for c, x in lv if isinstance(x, tuple) and x and x[0] == 'enum' and x[2] == 'Ok']
        errs = [(c, x) for c, x in lv if isinstance(x, tuple) and x and x[0] == 'enum' and x[2] == 'Err']
        if len(oks) != 1 or len(oks) + len(errs) != len(lv):
            return None, None, False
        conds, okv = oks[0]
        g = None
        for c, pol in reversed(conds):
            a = c if pol else negate(c)
            g = a if g is None else ('ite', a, g, E.FALSE)
        return g, okv[4][0], True


NEG = {'Lt': 'Ge', 'Le': 'Gt', 'Gt': 'Le', 'Ge': 'Lt', 'Eq': 'Ne', 'Ne': 'Eq'}


def negate(c):
    if isinstance(c, tuple) and c and c[0] == 'bin' and c[1] in NEG:
        return ('bin', NEG[c[1]], c[2], c[3])
    if isinstance(c, tuple) and c and c[0] == 'un' and c[1] == 'Not':
        return c[2]
    return ('un', 'Not', c)


def get(ctx):
    if 'c' not in _CACHE:
        _CACHE['c'] = Conv(ctx)
    return _CACHE['c']


def has_atom(t, atom):
    for x in subterms(t):
        if x == atom:
            return True
    return False


def param_reads(t):
    """[(field, key name | term)] of every params.<map>[key] and (field,) of every other params.<field> read in t"""
    out = set()
    for x in subterms(t):
        if x and x[0] == 'mapget' and x[1][0] == 'field' and x[1][1] == ('param', 'params'):
            k = x[2]
            out.add((x[1][2], k[2] if isinstance(k, tuple) and k and k[0] == 'enum' else show(k)[:40]))
        elif x and x[0] == 'field' and x[1] == ('param', 'params'):
            out.add((x[2],))
    # a map field that is only seen through mapget is not a separate read
    maps = {r[0] for r in out if len(r) == 2}
    return {r for r in out if not (len(r) == 1 and r[0] in maps)}
