"""R1.2 - modular-angle hygiene (wrap clause of C01 and C13).

A quantity that only exists modulo 360 degrees (a field of the ephemeris record
whose constructor stores a `cap_angle_360`-lineage value) may be used
  (a) under a normaliser / periodic consumer whose period divides 360 for the
      scale it has been given, or
  (b) alone as a canonical representative, or
  (c) in a difference of the same quantity on neighbouring days *after* the pair
      has been made continuous by guarded +/-360 adjustments.
Two or more modular sources combined linearly outside (a) must pass (c): for each
position of the 360->0 seam relative to the three days the adjusted operands must
equal the unwrapped angles up to one common multiple of 360.
"""
import math
from .. import engine as E
from ..engine import is_const, cval
from ..terms import show, subterms
from ..context import AnchorLost, last_seg
from .common import const_f64

MAX_DAILY_MOTION = 1.2      # degrees per day (Sun's right ascension / sidereal drift of the compared quantity)


def normaliser_periods(ctx):
    """{normaliser path: period}: the largest f64 constant its body mentions (1 if none > 1)"""
    out = {}
    for p in ctx.role('normalisers'):
        b = ctx.lib.bodies[p]
        best = 1.0
        todo = [p]
        seen = set()
        while todo:
            q = todo.pop()
            if q in seen or q not in ctx.lib.bodies:
                continue
            seen.add(q)
            bb = ctx.lib.bodies[q]
            for bi, si, s in bb.assigns():
                for o in _ops(s['rv']):
                    if o['k'] == 'const' and 'f64' in o and isinstance(o['f64'], (int, float)):
                        best = max(best, abs(float(o['f64'])))
            for bi, t in bb.calls():
                for o in t['args']:
                    if o['k'] == 'const' and 'f64' in o and isinstance(o['f64'], (int, float)):
                        best = max(best, abs(float(o['f64'])))
                n = t['callee'].get('resolved') or t['callee'].get('decl')
                if n in ctx.role('normalisers'):
                    todo.append(n)
        out[p] = best
    return out


def body_consts(ctx, p):
    out = set()
    b = ctx.lib.bodies[p]
    for bi, si, s in b.assigns():
        for o in _ops(s['rv']):
            if o['k'] == 'const' and 'f64' in o and isinstance(o['f64'], (int, float)):
                out.add(abs(float(o['f64'])))
    for bi, t in b.calls():
        for o in t['args']:
            if o['k'] == 'const' and 'f64' in o and isinstance(o['f64'], (int, float)):
                out.add(abs(float(o['f64'])))
    return out


def _ops(rv):
    from ..facts import rv_operands
    return rv_operands(rv)


class Hygiene:
    def __init__(self, ctx, rep, modular_fields, periods, is_source):
        self.ctx = ctx
        self.rep = rep
        self.mf = modular_fields
        self.periods = periods
        self.is_source = is_source
        self.n_periodic = 0
        self.n_single = 0
        self.n_aligned = 0
        self.n_guard = 0
        self.seen = set()
        self.where = '?'

    # -- classification of sub-terms ------------------------------------------------
    def source(self, t):
        """(field, day) if t is a modular source atom, ('norm', period) for a normaliser application"""
        return self.is_source(t)

    def has_source(self, t):
        for x in subterms(t):
            if self.source(x) is not None:
                return True
        return False

    def sources_in(self, t, stop_nonlinear=True):
        out = []
        for x in subterms(t):
            s = self.source(x)
            if s is not None:
                out.append((x, s))
        return out

    # -- traversal ---------------------------------------------------------------------
    def region(self, t):
        """linear region rooted at t: (sources, non-linear leaves, conditions)"""
        srcs, leaves, conds = [], [], []
        st = [t]
        seen = set()
        while st:
            x = st.pop()
            if not isinstance(x, tuple) or not x or id(x) in seen:
                continue
            seen.add(id(x))
            s = self.source(x)
            if s is not None and s[0] != 'norm':
                srcs.append(x)
                if x[0] == 'app':
                    leaves.append(x)
                continue
            if x[0] == 'bin' and x[1] in ('Add', 'Sub'):
                st += [x[2], x[3]]
            elif x[0] == 'bin' and x[1] in ('Mul', 'Div') and const_f64(x[3]) is not None:
                st.append(x[2])
            elif x[0] == 'bin' and x[1] == 'Mul' and const_f64(x[2]) is not None:
                st.append(x[3])
            elif x[0] == 'un' and x[1] == 'Neg':
                st.append(x[2])
            elif x[0] == 'ite' and self.numeric(x):
                conds.append(x[1])
                st += [x[2], x[3]]
            elif x[0] == 'c':
                pass
            else:
                leaves.append(x)
        return srcs, leaves, conds

    def numeric(self, x):
        """an ite whose branches are numbers (not Ok/Err/maps/tuples)"""
        for br in (x[2], x[3]):
            if isinstance(br, tuple) and br and br[0] in ('enum', 'tuple', 'map', 'array', 'vec', 'ref'):
                return False
        return True

    def visit(self, t, period=None):
        """period: None = free context; number = value only matters modulo `period` (in the units of t)"""
        if not isinstance(t, tuple) or not t:
            return
        key = (id(t), period)
        if key in self.seen:
            return
        self.seen.add(key)
        tag = t[0]
        src = self.source(t)
        if src is not None and t[0] == 'app':
            for a in t[2]:
                self.visit(a, self.periods.get(t[1], 360.0))
            if period is None:
                self.n_single += 1
            return
        if src is not None and src[0] != 'norm':
            if period is not None:
                q = 360.0 / period
                ok = abs(q - round(q)) < 1e-9 and round(q) >= 1
                self.n_periodic += 1
                if not ok:
                    self.rep.ob('R1.2', f'period:{src[0]}', False,
                                f'{self.where}: modular quantity {src[0]} (period 360) is consumed with period {period:g}: '
                                'a non-integer multiple of a residue is ill-defined')
            else:
                self.n_single += 1
            return
        if period is None:
            srcs, leaves, conds = self.region(t)
            if srcs or conds or (leaves and leaves != [t]):
                if len(set(srcs)) >= 2:
                    self.linear_free(t)
                else:
                    self.n_single += len(set(srcs))
                for c in conds:
                    self.visit_cond(c)
                for x in leaves:
                    self.visit_leaf(x, None)
                return
            self.visit_leaf(t, None)
            return
        # periodic context: linear operators propagate (rescaled) periods
        if tag == 'bin' and t[1] in ('Add', 'Sub'):
            self.visit(t[2], period)
            self.visit(t[3], period)
            return
        if tag == 'bin' and t[1] in ('Mul', 'Div'):
            ka, kb = const_f64(t[2]), const_f64(t[3])
            if kb is not None and kb != 0:
                s = kb if t[1] == 'Mul' else 1.0 / kb
                self.visit(t[2], period / abs(s))
                return
            if ka is not None and t[1] == 'Mul' and ka != 0:
                self.visit(t[3], period / abs(ka))
                return
            self.visit(t[2], None)
            self.visit(t[3], None)
            return
        if tag == 'un' and t[1] == 'Neg':
            self.visit(t[2], period)
            return
        if tag == 'ite' and self.numeric(t):
            self.visit_cond(t[1])
            self.visit(t[2], period)
            self.visit(t[3], period)
            return
        self.visit_leaf(t, period)

    def visit_leaf(self, t, period):
        if not isinstance(t, tuple) or not t:
            return
        tag = t[0]
        if tag == 'app':
            f = t[1]
            if f in self.periods:
                for a in t[2]:
                    self.visit(a, self.periods[f])
                return
            if f in ('sin', 'cos', 'tan'):
                for a in t[2]:
                    self.visit(a, 2 * math.pi)
                return
            if f == 'to_radians':
                self.visit(t[2][0], None if period is None else period * 180.0 / math.pi)
                return
            if f == 'to_degrees':
                self.visit(t[2][0], None if period is None else period * math.pi / 180.0)
                return
            for a in t[2]:
                self.visit(a, None)
            return
        if tag == 'ite':
            self.visit_cond(t[1])
            self.visit(t[2], None)
            self.visit(t[3], None)
            return
        if tag == 'bin':
            if t[1] in ('Lt', 'Le', 'Gt', 'Ge', 'Eq', 'Ne'):
                self.visit_cond(t)
                return
            self.visit(t[2], None)
            self.visit(t[3], None)
            return
        if tag in ('un', 'cast'):
            self.visit(t[2], None)
            return
        if tag == 'enum':
            for x in t[4]:
                self.visit(x, None)
            return
        if tag in ('tuple', 'array', 'vec'):
            for x in t[1]:
                self.visit(x, None)
            return
        if tag == 'map':
            for _, v in t[2]:
                self.visit(v, None)
            return
        for x in t[1:]:
            if isinstance(x, tuple):
                self.visit(x, None)

    def count_sources(self, t):
        n = 0
        seen = set()
        for x in subterms(t):
            s = self.source(x)
            if s is not None and s[0] != 'norm' and x not in seen:
                seen.add(x)
                n += 1
        return n

    def visit_cond(self, c):
        if not isinstance(c, tuple) or not c:
            return
        if c[0] == 'bin' and c[1] in ('Lt', 'Le', 'Gt', 'Ge', 'Eq', 'Ne'):
            a, b = c[2], c[3]
            for x, y in ((a, b), (b, a)):
                s = self.source(x)
                if s is not None and s[0] != 'norm' and const_f64(y) is not None:
                    self.n_guard += 1       # canonical representative compared with a constant: the guard itself
                    return
            self.visit(a, None)
            self.visit(b, None)
            return
        if c[0] == 'ite':
            self.visit_cond(c[1])
            self.visit_cond(c[2])
            self.visit_cond(c[3])
            return
        self.visit(c, None)

    # -- (c) aligned combinations ----------------------------------------------------------
    def linear_free(self, t):
        srcs = {}
        for x in self.region(t)[0]:
            srcs[x] = self.source(x)
        # sources that only occur in the wrap guards (e.g. the middle day) take part in the seam cases
        gsrcs = dict(srcs)
        for x in subterms(t):
            if x and x[0] == 'bin' and x[1] in ('Gt', 'Ge', 'Lt', 'Le') and const_f64(x[3]) is not None:
                sx = self.source(x[2])
                if sx is not None and sx[0] != 'norm':
                    gsrcs[x[2]] = sx
        fields = {s[0] for s in srcs.values()}
        label = '+'.join(sorted(fields))
        if len(fields) != 1:
            self.rep.ob('R1.2', f'mixed:{label}', False,
                        f'{self.where}: different modular quantities ({label}) are combined without a normaliser: {show(t, maxd=4)[:160]}')
            return
        by_day = {}
        for x, s in gsrcs.items():
            if s[0] in fields:
                by_day[s[1]] = x
        days = sorted(by_day)
        # guard constants
        J = K = None
        conds = []
        for x in subterms(t):
            if x and x[0] == 'bin' and x[1] in ('Gt', 'Ge', 'Lt', 'Le') and x[2] in gsrcs and const_f64(x[3]) is not None:
                conds.append(x)
                if x[1] in ('Gt', 'Ge'):
                    J = const_f64(x[3]) if J is None else min(J, const_f64(x[3]))
                else:
                    K = const_f64(x[3]) if K is None else max(K, const_f64(x[3]))
        span = MAX_DAILY_MOTION * max(1, (days[-1] - days[0]))
        ok_const = J is not None and K is not None and span <= K <= J <= 360.0 - span
        if J is None or K is None:
            self.rep.ob('R1.2', f'align:{label}:guards', False,
                        f'{self.where}: {label} of different days are combined outside a normaliser without wrap guards: {show(t, maxd=4)[:160]}')
            return
        self.rep.ob('R1.2', f'align:{label}:thresholds', ok_const,
                    f'wrap guards use {J:g} / {K:g}; need {span:g} <= K <= J <= {360 - span:g} for a daily motion < {MAX_DAILY_MOTION} deg')
        # seam positions: before which day the value wrapped (None = no wrap), plus all-high / all-low / middle
        cases = [('no-wrap-high', {d: 'high' for d in days}, {d: 0 for d in days}),
                 ('no-wrap-low', {d: 'low' for d in days}, {d: 0 for d in days}),
                 ('no-wrap-mid', {d: 'mid' for d in days}, {d: 0 for d in days})]
        for i in range(1, len(days)):
            zone = {d: ('high' if d < days[i] else 'low') for d in days}
            w = {d: (0 if d < days[i] else 1) for d in days}
            cases.append((f'wrap-before-day{days[i]}', zone, w))
        for name, zone, w in cases:
            asm = {}
            for c in conds:
                d = gsrcs[c[2]][1]
                z = zone[d]
                if c[1] in ('Gt', 'Ge'):
                    asm[c] = (z == 'high')
                else:
                    asm[c] = (z == 'low')
            ts = E.specialise(t, asm)
            lin = linearise(ts, srcs)
            key = f'align:{label}:{name}'
            if lin is None:
                self.rep.ob('R1.2', key, None, f'{self.where}: not linear after deciding the guards: {show(ts, maxd=4)[:140]}')
                continue
            coef, const = lin
            # reference: the same combination of the unwrapped angles a_d = r_d + 360*w_d, taken from the no-adjustment reading
            ref = linearise(strip_adjust(t, srcs), srcs)
            if ref is None:
                self.rep.ob('R1.2', key, None, f'{self.where}: reference combination not linear')
                continue
            rcoef, rconst = ref
            want_const = rconst + 360.0 * sum(rcoef.get(x, 0.0) * w[srcs[x][1]] for x in srcs)
            same_coef = all(abs(coef.get(x, 0.0) - rcoef.get(x, 0.0)) < 1e-12 for x in srcs)
            zero_sum = abs(sum(c for x, c in rcoef.items() if x in srcs)) < 1e-12
            ok = same_coef and abs(const - want_const) < 1e-9
            if not zero_sum:
                self.rep.ob('R1.2', f'align:{label}:difference', False,
                            f'{self.where}: the combination is not shift-invariant (coefficients sum to {sum(rcoef.values()):g})')
                return
            detail = (f'{self.where}: seam {name}: operands equal the unwrapped angles' if ok else
                      f'{self.where}: seam {name}: got coefficients {fmt(coef, srcs)} + {const:g}, the unwrapped angles need '
                      f'{fmt(rcoef, srcs)} + {want_const:g}')
            self.rep.ob('R1.2', key, ok, detail)
            if ok:
                self.n_aligned += 1


def fmt(coef, srcs):
    return ' '.join(f'{c:+g}*{srcs[x][0]}[day{srcs[x][1]}]' for x, c in coef.items() if x in srcs and c)


def strip_adjust(t, srcs):
    """the combination without wrap adjustments: every guarded alternative replaced by its unguarded (else) branch"""
    if not isinstance(t, tuple) or not t:
        return t
    if t in srcs:
        return t
    if t[0] == 'ite':
        return strip_adjust(t[3], srcs)
    if t[0] == 'bin':
        return ('bin', t[1], strip_adjust(t[2], srcs), strip_adjust(t[3], srcs))
    if t[0] == 'un':
        return ('un', t[1], strip_adjust(t[2], srcs))
    return t


def linearise(t, srcs):
    """({source: coefficient}, constant) or None"""
    if t in srcs:
        return ({t: 1.0}, 0.0)
    k = const_f64(t)
    if k is not None:
        return ({}, k)
    if not isinstance(t, tuple) or not t:
        return None
    if t[0] == 'bin':
        op = t[1]
        if op in ('Add', 'Sub'):
            a = linearise(t[2], srcs)
            b = linearise(t[3], srcs)
            if a is None or b is None:
                return None
            s = 1.0 if op == 'Add' else -1.0
            co = dict(a[0])
            for x, c in b[0].items():
                co[x] = co.get(x, 0.0) + s * c
            return (co, a[1] + s * b[1])
        if op in ('Mul', 'Div'):
            ka, kb = const_f64(t[2]), const_f64(t[3])
            if kb is not None and kb != 0:
                a = linearise(t[2], srcs)
                if a is None:
                    return None
                s = kb if op == 'Mul' else 1.0 / kb
                return ({x: c * s for x, c in a[0].items()}, a[1] * s)
            if ka is not None and op == 'Mul':
                b = linearise(t[3], srcs)
                if b is None:
                    return None
                return ({x: c * ka for x, c in b[0].items()}, b[1] * ka)
        return ({t: 1.0}, 0.0)      # a non-linear leaf of the region: an opaque symbol
    if t[0] == 'un' and t[1] == 'Neg':
        a = linearise(t[2], srcs)
        if a is None:
            return None
        return ({x: -c for x, c in a[0].items()}, -a[1])
    if t[0] == 'ite':
        return None
    return ({t: 1.0}, 0.0)


def record_type(ctx):
    """the ephemeris record: element type of the Vec field(s) of the ephemeris container"""
    a = ctx.lib.adts[ctx.role('eph_type')]
    c = set()
    for f in a['variants'][0]['fields']:
        ty = f['ty']
        if ty.get('adt') == 'std::vec::Vec' and ty['args'] and ty['args'][0].get('adt') in ctx.lib.adts:
            c.add(ty['args'][0]['adt'])
        import re
        m = re.match(r'^\[(.+); \d+\]$', ty['s'])
        if m and m.group(1) in ctx.lib.adts:
            c.add(m.group(1))
    if len(c) != 1:
        raise AnchorLost('ephemeris record type', str(c))
    return c.pop()


def check(ctx, rep, c):
    periods = normaliser_periods(ctx)
    rep.floor('normalisers', len(periods), 4)
    n360 = {p for p, P in periods.items() if P == 360.0}
    # normalisers whose result is the canonical representative in [0, 360): period 360 and no half-turn constant
    canon360 = {p for p in n360 if 180.0 not in body_consts(ctx, p)}
    rep.floor('canonical [0,360) normalisers', len(canon360), 1)
    rec = record_type(ctx)
    fields = [f['name'] for f in ctx.lib.adts[rec]['variants'][0]['fields']]
    # --- discover the modular fields from the constructors of the record ---------------------
    modular = set()
    ctor_terms = []       # (where, field, term)
    lib = ctx.lib
    for p, b in lib.bodies.items():
        if b.kind not in ('Fn', 'AssocFn') or b.derived:
            continue
        builds = any(s['rv']['k'] == 'agg' and isinstance(s['rv']['agg'], dict) and s['rv']['agg'].get('adt') == rec
                     for _, _, s in b.assigns())
        if not builds:
            continue
        eng = ctx.engine(opaque_roles=('normalisers',))
        eng.use_cache = False
        found = []

        def hook(eng, st, fr, s, root, path, v, found=found, p=p):
            rv = s['rv']
            if fr.body.path == p and rv['k'] == 'agg' and isinstance(rv['agg'], dict) and rv['agg'].get('adt') == rec:
                found.append(v)
        eng.hooks['assign'] = hook
        eng.call_entry(p, eng.sym_args(p))
        for v in found:
            if v[0] == 'enum':
                for i, fn in enumerate(fields):
                    ctor_terms.append((p, fn, v[4][i]))
    rep.floor('ephemeris record constructions', len(ctor_terms) // max(1, len(fields)), 2)

    def top_summands(t):
        out = []
        st = [t]
        while st:
            x = st.pop()
            if isinstance(x, tuple) and x and x[0] == 'bin' and x[1] in ('Add', 'Sub'):
                st += [x[2], x[3]]
            else:
                out.append(x)
        return out
    changed = True
    while changed:
        changed = False
        for (p, fn, t) in ctor_terms:
            if fn in modular:
                continue
            for x in top_summands(t):
                if isinstance(x, tuple) and x and x[0] == 'app' and x[1] in n360:
                    modular.add(fn)
                    changed = True
                if isinstance(x, tuple) and x and x[0] == 'field' and x[2] in modular:
                    modular.add(fn)
                    changed = True
    rep.floor('modular fields', len(modular), 2)
    rep.sample({'modular fields of the ephemeris record': sorted(modular)})

    def is_source_conv(t):
        if t and t[0] == 'app' and t[1] in canon360:
            return ('wrapped-angle', 1, 'normaliser')
        # tad.astros[i].f
        if t and t[0] == 'field' and t[2] in modular and isinstance(t[1], tuple) and t[1] and t[1][0] == 'elem':
            idx = t[1][2]
            base = t[1][1]
            day = cval(idx) if is_const(idx) else None
            if day is not None:
                return (f'{t[2]}', day, show(base, maxd=2))
        return None

    def is_source_ctor(t):
        if t and t[0] == 'app' and t[1] in canon360:
            return ('wrapped-angle', 0)
        if t and t[0] == 'field' and t[2] in modular:
            return (t[2], 0)
        return None

    # --- the conventional layer -----------------------------------------------------------------
    hy = Hygiene(ctx, rep, modular, periods, is_source_conv)
    for k, v in c.values.items():
        hy.where = f'conventional {k}'
        hy.visit(v, None)
    # --- the constructors (fields that are not themselves modular are plain numbers) ------------------
    hy2 = Hygiene(ctx, rep, modular, periods, is_source_ctor)
    for (p, fn, t) in ctor_terms:
        hy2.where = f'{last_seg(p)} field {fn}'
        hy2.visit(t, 360.0 if fn in modular else None)
    rep.extra['modular_uses'] = {'normalised': hy.n_periodic + hy2.n_periodic, 'single_representative': hy.n_single + hy2.n_single,
                                 'guard_comparisons': hy.n_guard + hy2.n_guard, 'aligned_cases': hy.n_aligned + hy2.n_aligned}
    rep.floor('normalised uses of modular quantities', hy.n_periodic + hy2.n_periodic, 3)
    rep.floor('aligned day-to-day differences (seam cases)', hy.n_aligned, 6)
    calendar_offsets(ctx, rep, c, periods)


def calendar_offsets(ctx, rep, c, periods, rule='R1.2'):
    """The three tabulated days are interpolated at the day fraction m in [0, 1).  A term of the calendar date (year, month, day)
    added to that fraction - a Delta-T correction, say - moves the interpolation point; over the property's dates (1600..2399) it has
    to stay a small fraction of a day, or the position is extrapolated far outside the table."""
    from .. import domains as D
    CAL = {'year': (1600.0, 2399.0), 'month': (1.0, 12.0), 'day': (1.0, 31.0), 'ordinal': (1.0, 366.0)}

    def cal_atom(x):
        return x and x[0] == 'app' and 'Datelike' in x[1] and x[1].rsplit('::', 1)[-1] in CAL
    n = 0
    seen = set()
    for k, v in c.values.items():
        cals = {x for x in subterms(v) if cal_atom(x)}
        if not cals:
            continue
        env = {x: CAL[x[1].rsplit('::', 1)[-1]] for x in cals}
        found = False
        for x in subterms(v):
            if not (x and x[0] == 'bin' and x[1] in ('Add', 'Sub')):
                continue
            for frac, off in ((x[2], x[3]), (x[3], x[2])):
                if any(y in cals for y in subterms(frac)) or not any(y in cals for y in subterms(off)):
                    continue
                if not any(y and y[0] == 'app' and periods.get(y[1]) == 1.0 for y in subterms(frac)):
                    continue
                # the offset must be a function of the calendar date alone
                atoms = [y for y in subterms(off) if y and y[0] in ('param', 'field', 'mapget', 'app') and not cal_atom(y)
                         and not (y[0] == 'app' and (y[1].endswith('::from') or y[1] in ('powi', 'powf', 'abs', 'floor')))]
                atoms = [y for y in atoms if not any(z in cals for z in subterms(y)) or y[0] != 'app']
                found = True
                key = (frac, off)
                if key in seen:
                    continue
                seen.add(key)
                n += 1
                lo, hi = D.rng(off, env)
                if atoms and (lo, hi) == D.TOP:
                    rep.ob(rule, f'interpolation-point:{k}', None, f'the day fraction is offset by {show(off, maxd=4)[:100]}: not bounded')
                    continue
                ok = lo >= -0.05 and hi <= 0.05
                rep.ob(rule, f'interpolation-point:{k}', ok,
                       f'calendar-dependent offset of the interpolation point stays within [{lo:.4g}, {hi:.4g}] day' if ok else
                       f'the interpolation point m is offset by {show(off, maxd=4)[:120]}, a function of the calendar date that ranges over '
                       f'[{lo:.4g}, {hi:.4g}] days for dates 1600..2399: the three-day table is extrapolated far outside itself')
        if not found:
            rep.ob(rule, f'calendar-dependence:{k}', None,
                   f'the conventional {k} reads the calendar date directly ({sorted(show(x, maxd=2)[:40] for x in cals)[:2]}): not decided')
    rep.extra['calendar_offsets'] = n
