"""Rules of one property that are necessary conditions of another are included there through a filtering proxy:
only the named rule ids reach the including property's report (its explanation / trusted base stay its own)."""


class _Filter:
    def __init__(self, rep, rules, floors, keys=None):
        object.__setattr__(self, '_keys', keys)
        object.__setattr__(self, '_rep', rep)
        object.__setattr__(self, '_rules', set(rules))
        object.__setattr__(self, '_floors', floors)
        object.__setattr__(self, '_n', [0])

    def __setattr__(self, k, v):
        # explanation / trusted / assumptions of the included module are not taken over
        if k in ('explanation', 'trusted', 'assumptions'):
            return
        setattr(self._rep, k, v)

    def __getattr__(self, k):
        return getattr(self._rep, k)

    def ob(self, rule, key, status, detail='', where=None, **payload):
        if rule in self._rules and self._keys is not None and not self._keys(key):
            return
        if rule in self._rules:
            self._n[0] += 1
        if rule in self._rules or rule in ('engine', 'anchor'):
            return self._rep.ob(rule, key, status, detail, where=where, **payload)

    def floor(self, name, n, floor):
        if self._floors:
            return self._rep.floor(name, n, floor)

    def note(self, s):
        pass

    def sample(self, s):
        pass


def include(ctx, rep, run, rules, floors=False, why='', keys=None):
    f = _Filter(rep, rules, floors, keys)
    run(ctx, f)
    # fail closed: an included rule set that produced nothing decides nothing
    rep.floor(f'obligations of the included rules {sorted(rules)}', f._n[0], 1)
    rep.note(f'included rules {sorted(rules)}: {why}')
