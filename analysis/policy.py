"""Skeleton worlds of the policy layer (DESIGN 2.3).

The policy layer (role: the function that takes the conventional
HashMap<Prayer, Result<f64,()>> and returns HashMap<Prayer, Result<PH,()>>) is
interpreted abstractly for every feasible initial validity pattern of the six
conventional cells; the 15 policies and all data-dependent conditions fork
inside.  One record per resulting world.
"""
import itertools
from . import engine as E
from .context import SIX, AnchorLost
from .terms import show

FEASIBLE_NOTE = ('initial patterns: Dhuhr always valid (R1.1) and Shurooq/Maghrib valid together (R6.3); '
                 'both are checked on the conventional layer by their own rules')


def conv_atom(k):
    return ('param', 'conv:' + k)


class World:
    __slots__ = ('pattern', 'policy', 'asm', 'final', 'state', 'idx')

    def __init__(self, pattern, policy, asm, final, state):
        self.pattern = pattern
        self.policy = policy
        self.asm = asm
        self.final = final
        self.state = state

    def describe(self):
        inv = [k for k in SIX if not self.pattern[k]]
        fb = []
        for c, v in self.asm.items():
            if isinstance(c, tuple) and c and c[0] == 'discr':
                continue
            fb.append(f'{show(c, maxd=4)[:90]}={v}')
        return f'policy={self.policy} invalid={inv or "none"} ' + ' '.join(sorted(fb))


def feasible_patterns():
    out = []
    for f, sm, a, i in itertools.product([True, False], repeat=4):
        out.append({'Fajr': f, 'Shurooq': sm, 'Dhuhr': True, 'Asr': a, 'Maghrib': sm, 'Isha': i})
    return out


class PolicyAnalysis:
    def __init__(self, ctx, patterns=None, extra_opaque=()):
        self.ctx = ctx
        self.entry = ctx.role('policy_layer')
        self.body = ctx.lib.bodies[self.entry]
        self.ph = ctx.role('ph_type')
        (self.vi, self.vname), (self.fi, self.fname) = ctx.role('ph_fields')
        self.elm_adt = ctx.adt('ExtremeLatitudeMethod')
        self.worlds = []
        self.panics = []       # (pattern, event)
        self.events = []       # all log events with pattern attached
        self.incomplete = []
        self.unmodelled = {}
        self.steps = 0
        self.patterns = patterns or feasible_patterns()
        self.extra_opaque = set(extra_opaque)
        self.arg_names = None
        self.hours_arg = None
        self.interest = set()
        self.visited = {}

    def make_args(self, eng, pattern):
        b = self.body
        prayer = self.ctx.adt('Prayer')
        args = eng.sym_args(self.entry)
        names = []
        for i in range(1, b.arg_count + 1):
            ty = b.locals[i]
            nm = b.var_name(i) or f'arg{i}'
            names.append(nm)
            if ty['s'].startswith('std::collections::HashMap<' + prayer):
                items = []
                for k in SIX:
                    kv = self.ctx.prayer_key(k)
                    v = E.OK(conv_atom(k)) if pattern[k] else E.ERR(E.UNIT)
                    items.append((kv, v))
                items.sort(key=lambda kv: repr(kv[0]))
                args[i - 1] = ('map', None, tuple(items))
                self.hours_arg = i - 1
            elif (ty.get('ref') or {}).get('adt') == self.ctx.adt('Params'):
                args[i - 1] = E.mk_ref(('S', ('param', 'params')), ())
            elif (ty.get('ref') or {}).get('adt') == self.ctx.role('eph_type'):
                args[i - 1] = E.mk_ref(('S', ('param', 'tad')), ())
            elif ty.get('adt') and ty['adt'].endswith('Weather'):
                args[i - 1] = ('param', 'weather')
        self.arg_names = names
        if self.hours_arg is None:
            raise AnchorLost('policy layer conventional-map argument')
        return args

    def policy_of(self, asm):
        for c, v in asm.items():
            if isinstance(c, tuple) and c and c[0] == 'discr' and c[1] == ('field', ('param', 'params'), 'extreme_latitude_method'):
                a = self.ctx.lib.adts[self.elm_adt]
                for var in a['variants']:
                    if int(var['discr']) == v:
                        return var['name']
        return None

    def decode_final(self, eng, st, ret):
        """ret: map value K -> Result<PH>"""
        out = {}
        ret = eng.force(st, ret)
        if ret[0] != 'map' or ret[1] is not None:
            return None
        for kk, vv in ret[2]:
            name = kk[2]
            vv = eng.force(st, vv)
            if vv[0] != 'enum':
                out[name] = ('?', vv)
            elif vv[2] == 'Ok':
                ph = eng.force(st, vv[4][0])
                if ph[0] == 'enum':
                    out[name] = ('Ok', ph[4][self.vi], ph[4][self.fi])
                else:
                    out[name] = ('Ok', eng.project(st, ph, ('f', self.vi, self.vname)),
                                 eng.project(st, ph, ('f', self.fi, self.fname)))
            else:
                out[name] = ('Err',)
        return out

    def run_pattern(self, pattern):
        ctx = self.ctx
        eng = ctx.engine(opaque_roles=('normalisers', 'eph_ctors'))
        eng.opaque |= self.extra_opaque
        if self.interest:
            eng.interest |= set(self.interest)
        args = self.make_args(eng, pattern)
        tree = eng.call_entry(self.entry, args)
        worlds = []
        events = []
        for ev in eng.log:
            ev = dict(ev)
            ev['pattern'] = pattern
            ev['policy'] = self.policy_of(ev['asm'])
            events.append(ev)
        def expand(st, depth=0):
            try:
                final = self.decode_final(eng, st, st.ret)
            except E.Fork as f:
                if depth > 12:
                    worlds.append(World(pattern, self.policy_of(st.asm), dict(st.asm), None, None))
                    return
                for val in f.options:
                    st2 = st.clone()
                    st2.asm[f.cond] = val
                    expand(st2, depth + 1)
                return
            # canonical form: split on the parameter-only conditions (e.g. `intervals[K] == 0`) the joined cell values
            # still depend on, so that the set of worlds does not depend on how much of the code happens to be pure
            from . import domains as D
            from .terms import subterms
            import itertools
            conds = []
            # what this path already assumes (its policy, its branch outcomes) is resolved first
            if final:
                final = {k: (('Ok', E.specialise(cell[1], st.asm), E.specialise(cell[2], st.asm)) if cell[0] == 'Ok' else cell)
                         for k, cell in final.items()}
            for k, cell in (final or {}).items():
                if cell[0] == 'Ok':
                    for c in D.ite_conds(cell[1]) + D.ite_conds(cell[2]):
                        if c in conds or c in st.asm or E.cond_value(c, st.asm) is not None:
                            continue
                        atoms = [x for x in subterms(c) if x and x[0] == 'param']
                        if atoms and all(x == ('param', 'params') for x in atoms):
                            conds.append(c)
            if not conds or len(conds) > 4:
                worlds.append(World(pattern, self.policy_of(st.asm), dict(st.asm), final, None))
                return
            for bits in itertools.product([True, False], repeat=len(conds)):
                asm = dict(st.asm)
                asm.update(zip(conds, bits))
                fin = {}
                for k, cell in final.items():
                    fin[k] = ('Ok', E.specialise(cell[1], asm), E.specialise(cell[2], asm)) if cell[0] == 'Ok' else cell
                worlds.append(World(pattern, self.policy_of(asm), asm, fin, None))
        for st in E.leaves_of(tree):
            expand(st)
        return worlds, events, dict(eng.unmodelled), list(eng.incomplete), eng.steps, dict(eng.visited)

    def run(self, parallel=True):
        results = []
        if parallel and len(self.patterns) > 1:
            import multiprocessing as mp
            global _PA
            _PA = self
            with mp.get_context('fork').Pool(min(16, len(self.patterns))) as pool:
                results = pool.map(_run_one, range(len(self.patterns)))
        else:
            results = [self.run_pattern(p) for p in self.patterns]
        for worlds, events, unm, inc, steps, vis in results:
            for k, v in vis.items():
                self.visited[k] = self.visited.get(k, 0) + v
            self.worlds += worlds
            self.events += events
            self.panics += [e for e in events if e['kind'] == 'panic']
            for k, v in unm.items():
                self.unmodelled[k] = self.unmodelled.get(k, 0) + v
            self.incomplete += inc
            self.steps += steps
        for i, w in enumerate(self.worlds):
            w.idx = i
        return self


_PA = None


def _run_one(i):
    import sys
    sys.setrecursionlimit(100000)
    return _PA.run_pattern(_PA.patterns[i])
