"""Runs the rustc_private fact extractor over /repo's *current working tree*.

Facts are cached by a hash of the tree (every file under /repo except target/
and .git/), so the checks of one sweep share one extraction; any edit to /repo
changes the hash and forces a fresh extraction.
"""
import fcntl
import glob
import hashlib
import os
import shutil
import subprocess
import sys
import time

VERIF = os.path.dirname(os.path.dirname(os.path.abspath(__file__)))
REPO = os.environ.get('IPT_REPO', '/repo')
CACHE = os.path.join(VERIF, '.cache')
DRIVER_DIR = os.path.join(VERIF, 'driver')
DRIVER = os.path.join(DRIVER_DIR, 'target', 'release', 'ipt-mirfacts')


def tree_hash(repo=REPO):
    h = hashlib.sha256()
    files = []
    for root, dirs, fs in os.walk(repo):
        dirs[:] = sorted(d for d in dirs if not (root == repo and d in ('target', '.git')))
        for f in sorted(fs):
            files.append(os.path.join(root, f))
    for p in sorted(files):
        rel = os.path.relpath(p, repo)
        h.update(rel.encode() + b'\0')
        try:
            with open(p, 'rb') as fh:
                h.update(hashlib.sha256(fh.read()).digest())
        except OSError:
            h.update(b'?')
    # the facts also depend on the extractor
    try:
        with open(os.path.join(DRIVER_DIR, 'src', 'main.rs'), 'rb') as fh:
            h.update(b'driver\0' + hashlib.sha256(fh.read()).digest())
    except OSError:
        pass
    return h.hexdigest()


def nightly_sysroot():
    return subprocess.check_output(['rustc', '+nightly', '--print', 'sysroot'], text=True).strip()


def build_driver(force=False):
    if os.path.exists(DRIVER) and not force:
        src = os.path.join(DRIVER_DIR, 'src', 'main.rs')
        if os.path.getmtime(DRIVER) >= os.path.getmtime(src):
            return
    env = dict(os.environ, CARGO_NET_OFFLINE='true')
    subprocess.check_call(['cargo', 'build', '--release', '--offline'], cwd=DRIVER_DIR, env=env,
                          stdout=subprocess.DEVNULL, stderr=subprocess.DEVNULL)


def _run_cargo(repo, target_dir, facts_dir, all_targets):
    env = dict(os.environ)
    env.update({
        'LD_LIBRARY_PATH': os.path.join(nightly_sysroot(), 'lib') + ':' + env.get('LD_LIBRARY_PATH', ''),
        'RUSTFLAGS': '-Zmir-opt-level=0 -Awarnings',
        'RUSTC_WORKSPACE_WRAPPER': DRIVER,
        'IPT_FACTS_DIR': facts_dir,
        'CARGO_TARGET_DIR': target_dir,
        'CARGO_NET_OFFLINE': 'true',
    })
    cmd = ['cargo', '+nightly', 'check', '--offline']
    cmd += ['--all-targets'] if all_targets else ['--lib', '--bins']
    return subprocess.run(cmd, cwd=repo, env=env, stdout=subprocess.PIPE, stderr=subprocess.STDOUT, text=True)


def extract(tier='quick', repo=REPO, verbose=False):
    """Returns dict kind -> path of facts json ('lib', 'bin', and for thorough
    also 'test' entries). Raises RuntimeError if the tree does not build."""
    all_targets = (tier == 'thorough')
    os.makedirs(CACHE, exist_ok=True)
    lock = open(os.path.join(CACHE, 'extract.lock'), 'w')
    fcntl.flock(lock, fcntl.LOCK_EX)
    try:
        build_driver()
        th = tree_hash(repo)
        key = th[:24] + ('-all' if all_targets else '-lb')
        out = os.path.join(CACHE, 'facts', key)
        done = os.path.join(out, 'DONE')
        if not os.path.exists(done):
            if os.path.isdir(out):
                shutil.rmtree(out)
            os.makedirs(out)
            target_dir = os.path.join(CACHE, 'target')
            # cargo's freshness cache would silently skip the wrapper: drop the
            # fingerprints of the workspace member so it is re-analysed.
            for fp in glob.glob(os.path.join(target_dir, 'debug', '.fingerprint', 'islamic_prayer_times-*')):
                shutil.rmtree(fp, ignore_errors=True)
            t0 = time.time()
            r = _run_cargo(repo, target_dir, out, all_targets)
            if r.returncode != 0:
                shutil.rmtree(out, ignore_errors=True)
                raise RuntimeError('cargo check failed on the current tree:\n' + r.stdout[-4000:])
            libs = glob.glob(os.path.join(out, '*-lib-*.json'))
            bins = glob.glob(os.path.join(out, '*-bin-*.json'))
            if len(libs) != 1 or len(bins) != 1:
                shutil.rmtree(out, ignore_errors=True)
                raise RuntimeError(f'fact files missing after extraction (lib={len(libs)} bin={len(bins)}); '
                                   'the wrapper was skipped')
            os.rename(libs[0], os.path.join(out, 'lib.json'))
            os.rename(bins[0], os.path.join(out, 'bin.json'))
            for i, t in enumerate(sorted(glob.glob(os.path.join(out, '*-test-*.json')))):
                os.rename(t, os.path.join(out, f'test{i}.json'))
            with open(done, 'w') as f:
                f.write(f'{time.time() - t0:.2f}\n')
            # keep the cache small: remove older fact directories
            base = os.path.join(CACHE, 'facts')
            ds = sorted((os.path.getmtime(os.path.join(base, d)), d) for d in os.listdir(base))
            for _, d in ds[:-6]:
                shutil.rmtree(os.path.join(base, d), ignore_errors=True)
        res = {'lib': os.path.join(out, 'lib.json'), 'bin': os.path.join(out, 'bin.json'), 'hash': th,
               'tests': sorted(glob.glob(os.path.join(out, 'test*.json')))}
        return res
    finally:
        fcntl.flock(lock, fcntl.LOCK_UN)
        lock.close()


if __name__ == '__main__':
    t0 = time.time()
    r = extract(sys.argv[1] if len(sys.argv) > 1 else 'quick')
    print(r, f'{time.time() - t0:.1f}s')
