"""Seeded one-instance-broken variants (see bin/selftest). `expect` is a regex on the rule id; None = must stay silent."""
EL = 'src/prayer_times/ext_lat.rs'
VARIANTS = [
    # ---------------------------------------------------------------- C08
    dict(id='c08-near-lat-drop-is-err', property='C08', expect=r'R8\.[23]', edits=[(EL,
         '''    if let Ok(adj_hour) = adj_hours[&Fajr] {
        let mut hours_res = hours[&Fajr].borrow_mut();
        if not_near_lat_fi_inv || hours_res.is_err() {''',
         '''    if let Ok(adj_hour) = adj_hours[&Fajr] {
        let mut hours_res = hours[&Fajr].borrow_mut();
        if not_near_lat_fi_inv || hours_res.is_ok() || hours_res.is_err() {''')]),
    dict(id='c08-sev-plain-ctor', property='C08', expect=r'R8\.3', edits=[(EL,
         '''                        *hours[&Isha].borrow_mut() =
                            Ok(PrayerHour::new_extreme(magh_hour + portion));''',
         '''                        *hours[&Isha].borrow_mut() =
                            Ok(PrayerHour::new(magh_hour + portion));''')]),
    dict(id='c08-invalid-in-always-list', property='C08', expect=r'R8\.2', edits=[(EL,
         '''            | SeventhOfNightFajrIshaAlways
            | SeventhOfDayFajrIshaAlways
            | HalfOfNightFajrIshaAlways
            | MinutesFromMaghribFajrIshaAlways
    )''',
         '''            | SeventhOfNightFajrIshaAlways
            | SeventhOfDayFajrIshaAlways
            | AngleBased
            | HalfOfNightFajrIshaAlways
            | MinutesFromMaghribFajrIshaAlways
    )''')]),
    dict(id='c08-good-day-inv-writes-asr', property='C08', expect=r'R8\.1', edits=[(EL,
         '''            if hours[&Isha].borrow().is_err() {
                *hours[&Isha].borrow_mut() = adj_hours[&Isha].map(PrayerHour::new_extreme);
            }
        }''',
         '''            if hours[&Isha].borrow().is_err() {
                *hours[&Isha].borrow_mut() = adj_hours[&Isha].map(PrayerHour::new_extreme);
                *hours[&Asr].borrow_mut() = adj_hours[&Asr].map(PrayerHour::new_extreme);
            }
        }''')]),
    dict(id='c08-min-inv-unflagged', property='C08', expect=r'R8\.3', edits=[(EL,
         '''            x.value += params.intervals[&Isha] / MIN_SEC_PER_HR_MIN;
            x.extreme = true;''',
         '''            x.value += params.intervals[&Isha] / MIN_SEC_PER_HR_MIN;
            x.extreme = false;''')]),
    dict(id='c08-refactor-silent', property='C08', expect=None, edits=[(EL,
         '''fn has_inv_hours(hours: &HashMap<Prayer, RefCell<Result<PrayerHour, ()>>>) -> bool {
    hours.iter().any(|x| x.1.borrow().is_err())
}''',
         '''fn has_inv_hours(hours: &HashMap<Prayer, RefCell<Result<PrayerHour, ()>>>) -> bool {
    let mut found = false;
    for (_, cell) in hours.iter() {
        if cell.borrow().is_err() {
            found = true;
        }
    }
    found
}''')]),
]
