"""Seeded one-instance-broken variants (see bin/selftest). `expect` is a regex on the rule id; None = must stay silent."""
EL = 'src/prayer_times/ext_lat.rs'
HR = 'src/prayer_times/hours.rs'
DT = 'src/prayer_times/date.rs'
QB = 'src/geo/qibla.rs'
WE = 'src/geo/weather.rs'
CO = 'src/geo/coordinates.rs'
MAIN = 'src/main.rs'
MOD = 'src/prayer_times/mod.rs'
HJ = 'src/hijri_date.rs'
JD = 'src/geo/julian_day.rs'
AS = 'src/geo/astro.rs'
VARIANTS = [
    # ---------------------------------------------------------------- C08
    dict(id='c08-near-lat-drop-is-err', property='C08', expect=r'R8\.[23]', edits=[(EL,
         '''    if let Ok(adj_hour) = adj_hours[&Fajr] {
        let mut hours_res = hours[&Fajr].borrow_mut();
        if not_near_lat_fi_inv || hours_res.is_err() {''',
         '''    if let Ok(adj_hour) = adj_hours[&Fajr] {
        let mut hours_res = hours[&Fajr].borrow_mut();
        if not_near_lat_fi_inv || hours_res.is_ok() || hours_res.is_err() {''')]),
    dict(id='c08-sev-plain-ctor', property='C08', expect=r'R8\.3', edits=[(EL,
         '''                        *hours[&Isha].borrow_mut() =
                            Ok(PrayerHour::new_extreme(magh_hour + portion));''',
         '''                        *hours[&Isha].borrow_mut() =
                            Ok(PrayerHour::new(magh_hour + portion));''')]),
    dict(id='c08-invalid-in-always-list', property='C08', expect=r'R8\.2', edits=[(EL,
         '''            | SeventhOfNightFajrIshaAlways
            | SeventhOfDayFajrIshaAlways
            | HalfOfNightFajrIshaAlways
            | MinutesFromMaghribFajrIshaAlways
    )''',
         '''            | SeventhOfNightFajrIshaAlways
            | SeventhOfDayFajrIshaAlways
            | AngleBased
            | HalfOfNightFajrIshaAlways
            | MinutesFromMaghribFajrIshaAlways
    )''')]),
    dict(id='c08-good-day-inv-writes-asr', property='C08', expect=r'R8\.1', edits=[(EL,
         '''            if hours[&Isha].borrow().is_err() {
                *hours[&Isha].borrow_mut() = adj_hours[&Isha].map(PrayerHour::new_extreme);
            }
        }''',
         '''            if hours[&Isha].borrow().is_err() {
                *hours[&Isha].borrow_mut() = adj_hours[&Isha].map(PrayerHour::new_extreme);
                *hours[&Asr].borrow_mut() = adj_hours[&Asr].map(PrayerHour::new_extreme);
            }
        }''')]),
    dict(id='c08-min-inv-unflagged', property='C08', expect=r'R8\.3', edits=[(EL,
         '''            x.value += params.intervals[&Isha] / MIN_SEC_PER_HR_MIN;
            x.extreme = true;''',
         '''            x.value += params.intervals[&Isha] / MIN_SEC_PER_HR_MIN;
            x.extreme = false;''')]),
    dict(id='c08-refactor-silent', property='C08', expect=None, edits=[(EL,
         '''fn has_inv_hours(hours: &HashMap<Prayer, RefCell<Result<PrayerHour, ()>>>) -> bool {
    hours.iter().any(|x| x.1.borrow().is_err())
}''',
         '''fn has_inv_hours(hours: &HashMap<Prayer, RefCell<Result<PrayerHour, ()>>>) -> bool {
    let mut found = false;
    for (_, cell) in hours.iter() {
        if cell.borrow().is_err() {
            found = true;
        }
    }
    found
}''')]),
    # ---------------------------------------------------------------- C11
    dict(id='c11-cap-31', property='C11', expect=r'R11\.1', edits=[(HR, 'const DEF_ROUND_SEC: f64 = 30.;', 'const DEF_ROUND_SEC: f64 = 31.;')]),
    dict(id='c11-gt', property='C11', expect=r'R11\.2', edits=[(HR, '    if *sec >= sec_cap {', '    if *sec > sec_cap {')]),
    dict(id='c11-modes-swapped', property='C11', expect=r'R11\.1', edits=[(HR,
         'if params.round_seconds == SpecialRounding {', 'if params.round_seconds == AggressiveRounding {')]),
    dict(id='c11-shurooq-rounded', property='C11', expect=r'R11\.1', edits=[(HR,
         'Fajr | Dhuhr | Asr | Maghrib | Isha => {', 'Fajr | Shurooq | Dhuhr | Asr | Maghrib | Isha => {')]),
    dict(id='c11-min-not-recomputed', property='C11', expect=r'R11\.[23]', edits=[(HR,
         """    *min = (*hour - hour.floor()) * MIN_SEC_PER_HR_MIN;
    *sec = 0.;""", """    if *sec >= sec_cap {
        *min += 1.;
    }
    *sec = 0.;""")]),
    dict(id='c11-no-wrap24', property='C11', expect=r'R11\.4', edits=[(HR,
         """    if hour >= HRS_PER_DAY {
        hour = hour.rem(HRS_PER_DAY);
    }""", """    if hour > HRS_PER_DAY {
        hour = hour.rem(HRS_PER_DAY);
    }""")]),
    dict(id='c11-offset-key', property='C11', expect=r'R11\.5', edits=[(HR,
         'let mut hour = hour + params.minutes[&prayer] / MIN_SEC_PER_HR_MIN;', 'let mut hour = hour + params.minutes[&Fajr] / MIN_SEC_PER_HR_MIN;')]),
    dict(id='c11-refactor-silent', property='C11', expect=None, edits=[(HR,
         """    if hour < 0. {
        while hour < 0. {
            hour += HRS_PER_DAY;
        }
    }""", """    while hour < 0. {
        hour += HRS_PER_DAY;
    }""")]),
    # ---------------------------------------------------------------- C07
    dict(id='c07-reintroduce-unwrap', property='C07', expect=r'R7\.1', edits=[(EL,
         'let extreme = hours[&Isha].borrow().map_or(false, |x| x.extreme);', 'let extreme = hours[&Isha].borrow().unwrap().extreme;')]),
    dict(id='c07-wrap-loop-wrong-way', property='C07', expect=r'R7\.4', edits=[(HR,
         """        while hour < 0. {
            hour += HRS_PER_DAY;""", """        while hour < 0. {
            hour -= HRS_PER_DAY;""")]),
    dict(id='c07-no-24-guard', property='C07', expect=r'R7\.5', edits=[(HR,
         """    if hour >= HRS_PER_DAY {
        hour = hour.rem(HRS_PER_DAY);
    }""", """    if hour > HRS_PER_DAY {
        hour = hour.rem(HRS_PER_DAY);
    }""")]),
    dict(id='c07-ref-across-borrow-mut', property='C07', expect=r'R7\.[13]', edits=[(EL,
         """    if hours[&Fajr].borrow().is_err() {
        *hours[&Fajr].borrow_mut() = hours[&Shurooq].borrow().map(|mut x| {
            x.value -= params.intervals[&Fajr] / MIN_SEC_PER_HR_MIN;""",
         """    let keep = hours[&Fajr].borrow();
    if keep.is_err() {
        *hours[&Fajr].borrow_mut() = hours[&Shurooq].borrow().map(|mut x| {
            x.value -= params.intervals[&Fajr] / MIN_SEC_PER_HR_MIN;""")]),
    dict(id='c07-missing-param-key', property='C07', expect=r'R7\.2', edits=[('src/prayer_times/params.rs',
         """            Mwl => {
                angles.insert(Fajr, 18.);
                angles.insert(Isha, 17.);""", """            Mwl => {
                angles.insert(Fajr, 18.);""")]),
    dict(id='c07-unwrap-dhuhr-sev', property='C07', expect=r'R7\.1', edits=[(EL,
         """        let shur_hour = hours[&Shurooq].borrow().as_ref().unwrap().value;
        let magh_hour = hours[&Maghrib].borrow().as_ref().unwrap().value;
        let portion = match""", """        let shur_hour = hours[&Shurooq].borrow().as_ref().unwrap().value;
        let magh_hour = hours[&Maghrib].borrow().as_ref().unwrap().value;
        let _asr_hour = hours[&Asr].borrow().as_ref().unwrap().value;
        let portion = match""")]),
    # ---------------------------------------------------------------- C01 / C13
    dict(id='c01-restore-prev-zero', property='C01', expect=r'R1\.2', edits=[(HR, '        prev_ra -= TWO_PI_DEG;', '        prev_ra = 0.;')]),
    dict(id='c13-restore-prev-zero', property='C13', expect=r'R1\.2', edits=[(HR, '        prev_ra -= TWO_PI_DEG;', '        prev_ra = 0.;')]),
    dict(id='c01-delete-next-adjust', property='C01', expect=r'R1\.2', edits=[(HR, '        next_ra += TWO_PI_DEG;', '        next_ra += 0.;')]),
    dict(id='c01-modulus-180', property='C01', expect=r'R1\.2', edits=[(HR, '        next_ra += TWO_PI_DEG;', '        next_ra += 180.;')]),
    dict(id='c01-threshold-359', property='C01', expect=r'R1\.2', edits=[(HR, '    let j = 350.;', '    let j = 359.5;')]),
    dict(id='c01-drop-hour-angle-normaliser', property='C13', expect=r'R1\.2', edits=[(HR,
         '(sid_time_gw + f64::from(top_astro_day.coords().longitude) - ra_interp).cap_angle_between_180()',
         '(sid_time_gw + f64::from(top_astro_day.coords().longitude) - ra_interp)')]),
    dict(id='c01-dhuhr-conditional', property='C01', expect=r'R1\.1', edits=[(HR,
         '    hours.insert(Dhuhr, Ok(dhuhr_hour));', '    hours.insert(Dhuhr, if dhuhr_hour.is_finite() { Ok(dhuhr_hour) } else { Err(()) });')]),
    dict(id='c01-dhuhr-uses-minutes', property='C01', expect=r'R1\.3', edits=[(HR,
         '    hours.insert(Dhuhr, Ok(dhuhr_hour));', '    hours.insert(Dhuhr, Ok(dhuhr_hour + params.minutes[&Dhuhr] * 0.));')]),
    dict(id='c01-refactor-silent', property='C01', expect=None, edits=[(HR,
         """    let delta1 = next_ra - prev_ra;
    let delta2 = next_ra + prev_ra - 2. * top_astro_day.astro().ra();
    (delta1, delta2)""", """    let cur = top_astro_day.astro().ra();
    (next_ra - prev_ra, (next_ra - cur) - (cur - prev_ra))""")]),
    # ---------------------------------------------------------------- C06
    dict(id='c06-guard-other-variable', property='C06', expect=r'R6\.[12]', edits=[(HR,
         '    let isha_hour = if within_abs_1(isha_hour) {', '    let isha_hour = if within_abs_1(fajr_hour.unwrap_or(2.)) {')]),
    dict(id='c06-open-interval', property='C06', expect=r'R6\.1', edits=[(HR, '    (-1. ..=1.).contains(&val)', '    (-1. ..1.).contains(&val)')]),
    dict(id='c06-narrow', property='C06', expect=r'R6\.1', edits=[(HR, '    (-1. ..=1.).contains(&val)', '    (-0.99 ..=0.99).contains(&val)')]),
    dict(id='c06-asr-unguarded', property='C06', expect=r'R6\.[12]', edits=[(HR,
         """    if within_abs_1(asr_hour) {
        Ok(dhuhr_hour + DEGREES_TO_10_BASE * asr_hour.acos().to_degrees())
    } else {
        Err(())
    }""", """    Ok(dhuhr_hour + DEGREES_TO_10_BASE * asr_hour.acos().to_degrees())""")]),
    dict(id='c06-none-drops-asr', property='C06', expect=r'R6\.4', edits=[(EL,
         """    adj_for_int(params, &hours);

    HashMap::from_iter""", """    adj_for_int(params, &hours);
    if params.extreme_latitude_method == ExtremeLatitudeMethod::None && hours[&Prayer::Shurooq].borrow().is_err() {
        *hours[&Prayer::Asr].borrow_mut() = Err(());
    }

    HashMap::from_iter""")]),
    dict(id='c06-refactor-silent', property='C06', expect=None, edits=[(HR,
         """fn within_abs_1(val: f64) -> bool {
    (-1. ..=1.).contains(&val)
}""", """fn within_abs_1(val: f64) -> bool {
    val >= -1. && val <= 1.
}""")]),
    # ---------------------------------------------------------------- C05
    dict(id='c05-drop-asr-insert', property='C05', expect=r'R5\.1', edits=[(HR, '    hours.insert(Asr, asr_hour_res);\n', '')]),
    dict(id='c05-fajr-after-noon', property='C05', expect=r'R5\.2', edits=[(HR,
         'Ok(dhuhr_hour - DEGREES_TO_10_BASE * fajr_hour.acos().to_degrees())', 'Ok(dhuhr_hour + DEGREES_TO_10_BASE * fajr_hour.acos().to_degrees())')]),
    dict(id='c05-flag-in-adj-for-int', property='C05', expect=r'R5\.3', edits=[(EL,
         """                x.value -= params.intervals[&Fajr] / MIN_SEC_PER_HR_MIN;
                x.extreme = extreme;""", """                x.value -= params.intervals[&Fajr] / MIN_SEC_PER_HR_MIN;
                x.extreme = true;""")]),
    dict(id='c05-no-imsaak', property='C05', expect=r'R5\.1', edits=[('src/prayer_times/mod.rs', '    times.insert(Imsaak, imsaak);', '    let _ = imsaak;')]),
    # ---------------------------------------------------------------- C14
    dict(id='c14-cast-unguarded', property='C14', expect=r'R14\.1', edits=[(DT, '(duration.num_days() + 1).max(0) as usize', '(duration.num_days() + 1) as usize')]),
    dict(id='c14-no-plus-one', property='C14', expect=r'R14\.1', edits=[(DT, '(duration.num_days() + 1).max(0) as usize', '(duration.num_days()).max(0) as usize')]),
    dict(id='c14-take-n-minus-1', property='C14', expect=r'R14\.2', edits=[(MOD, '        .take(date_range.num_days())', '        .take(date_range.num_days().saturating_sub(1))')]),
    dict(id='c14-step-b-plus-1', property='C14', expect=r'R14\.3', edits=[(DT,
         'start_date_iter = start_date_iter.add(Duration::days(block_size));', 'start_date_iter = start_date_iter.add(Duration::days(block_size + 1));')]),
    dict(id='c14-floor-for-ceil', property='C14', expect=r'R14\.3', edits=[(DT, '(days as f64 / count as f64).ceil() as i64', '(days as f64 / count as f64).floor() as i64')]),
    dict(id='c14-guard-lt', property='C14', expect=r'R14\.3', edits=[(DT, 'while start_date_iter <= *self.end_date() {', 'while start_date_iter < *self.end_date() {')]),
    dict(id='c14-insert-wrong-key', property='C14', expect=r'R14\.2', edits=[(MOD, '        times.insert(date, prayer_time);', '        times.insert(*date_range.start_date(), prayer_time);')]),
    # ---------------------------------------------------------------- C15
    dict(id='c15-delete-drop-tx', property='C15', expect=r'R15\.1', edits=[(MOD, '            drop(tx);\n', '            let _keep = &tx;\n')]),
    dict(id='c15-worker-whole-range', property='C15', expect=r'R15\.[23]', edits=[(MOD,
         'let partial_times = prayer_times_dt_rng(params, location, &date_range);', 'let partial_times = prayer_times_dt_rng(params, location, date_range_all);'),
         (MOD, '            let date_ranges = date_range.partition(avail_pll);', '            let date_range_all = date_range;\n            let date_ranges = date_range.partition(avail_pll);')]),
    dict(id='c15-skip-first-partition', property='C15', expect=r'R15\.3', edits=[(MOD, '            for date_range in date_ranges {', '            for date_range in date_ranges.into_iter().skip(1) {')]),
    dict(id='c15-collector-breaks', property='C15', expect=r'R15\.[14]', edits=[(MOD,
         """                while let Ok(mut partial_times) = rx.recv() {
                    times.append(&mut partial_times);
                }""", """                while let Ok(mut partial_times) = rx.recv() {
                    times.append(&mut partial_times);
                    if times.len() > 4000 {
                        break;
                    }
                }""")]),
    dict(id='c15-partition-other-count', property='C15', expect=r'R15\.3', edits=[(MOD, 'let date_ranges = date_range.partition(avail_pll);', 'let date_ranges = date_range.partition(avail_pll - 1);')]),
    # ---------------------------------------------------------------- C16
    dict(id='c16-atan', property='C16', expect=r'R16\.1', edits=[(QB, 'let degrees = x.sin().atan2(y).to_degrees();', 'let degrees = (x.sin() / y).atan().to_degrees();')]),
    dict(id='c16-elevation', property='C16', expect=r'R16\.2', edits=[(QB, 'let degrees = x.sin().atan2(y).to_degrees();',
         'let degrees = x.sin().atan2(y).to_degrees() + f64::from(coords.elevation) * 1e-9;')]),
    dict(id='c16-labels-swapped', property='C16', expect=r'R16\.3', edits=[(QB, """        if self.degrees < 0. {
            Rotation::Cw
        } else {
            Rotation::Ccw
        }""", """        if self.degrees < 0. {
            Rotation::Ccw
        } else {
            Rotation::Cw
        }""")]),
    dict(id='c16-constant', property='C16', expect=r'R16\.4', edits=[(QB, 'const KAABA_LATITUDE: f64 = 21.423333;', 'const KAABA_LATITUDE: f64 = 21.5;')]),
    dict(id='c16-reversed-difference', property='C16', expect=r'R16\.5', edits=[(QB,
         'let x = f64::from(coords.longitude).to_radians() - Self::KAABA_LONGITUDE.to_radians();',
         'let x = Self::KAABA_LONGITUDE.to_radians() - f64::from(coords.longitude).to_radians();')]),
    dict(id='c16-abs-latitude', property='C16', expect=r'R16\.', edits=[(QB,
         'let y = lat_rads.cos() * Self::KAABA_LATITUDE.to_radians().tan() - lat_rads.sin() * x.cos();',
         'let y = lat_rads.cos() * Self::KAABA_LATITUDE.to_radians().tan() - lat_rads.sin() * x.cos() + x.sin() * 1e-3;')]),
    # ---------------------------------------------------------------- C19
    dict(id='c19-dates-swapped', property='C19', expect=r'R19\.2', edits=[(MAIN,
         'date_range: Some(DateRange::from(start_date..=end_date)),', 'date_range: Some(DateRange::from(end_date..=start_date)),')]),
    dict(id='c19-default-params', property='C19', expect=r'R19\.2', edits=[(MAIN, 'let params = Params::new(cli_args.method);', 'let params = Params::default();')]),
    dict(id='c19-lat-lon-swapped', property='C19', expect=r'R19\.1', edits=[(MAIN,
         """        cli_args.latitude.unwrap(),
        cli_args.longitude.unwrap(),""", """        Latitude::try_from(f64::from(cli_args.longitude.unwrap()) / 2.).unwrap(),
        cli_args.longitude.unwrap(),"""), (MAIN, '    prayer_times_dt_rng_block, Coordinates, DateRange, HijriDate, Location, Params, Prayer,',
         '    prayer_times_dt_rng_block, Coordinates, DateRange, HijriDate, Latitude, Location, Params, Prayer,')]),
    dict(id='c19-field-f64', property='C19', expect=r'R19\.1', edits=[('src/cli.rs',
         """    #[arg(short, long, value_parser = clap::value_parser!(Elevation), default_value = "0")]
    pub elevation: Elevation,""", """    #[arg(short, long, default_value = "0")]
    pub elevation: f64,"""), (MAIN, '        cli_args.elevation,', '        islamic_prayer_times::Elevation::try_from(cli_args.elevation.clamp(-420., 8848.)).unwrap(),')]),
    dict(id='c19-output-other-value', property='C19', expect=r'R19\.[24]', edits=[(MAIN,
         '        write_prayer_times_file(&pts_by_date, &output_file_path);',
         '        write_prayer_times_file(&islamic_prayer_times::prayer_times_dt_rng(&params_config.params, params_config.location, &DateRange::default()), &output_file_path);')]),
    # ---------------------------------------------------------------- C18
    dict(id='c18-remove-serde-try-from', property='C18', expect=r'R18\.[13]', edits=[(WE,
         """#[derive(Debug, Clone, Copy, PartialEq, Serialize, Deserialize)]
#[serde(try_from = "f64")]
pub struct Temperature(f64);""", """#[derive(Debug, Clone, Copy, PartialEq, Serialize, Deserialize)]
pub struct Temperature(f64);""")]),
    dict(id='c18-pub-field', property='C18', expect=r'R18\.1', edits=[(CO, 'pub struct Gmt(f64);', 'pub struct Gmt(pub f64);')]),
    dict(id='c18-default-out-of-range', property='C18', expect=r'R18\.1', edits=[(CO,
         """impl Default for Elevation {
    fn default() -> Self {
        Self(0.)""", """impl Default for Elevation {
    fn default() -> Self {
        Self(-500.)""")]),
    dict(id='c18-exclusive-upper-bound', property='C18', expect=r'R18\.2', edits=[('src/lib.rs',
         '        if Self::range().contains(&value) {', '        if value >= *Self::range().start() && value < *Self::range().end() {')]),
    dict(id='c18-range-widened', property='C18', expect=r'R18\.6', edits=[(CO, '        -12. ..=12.', '        -12. ..=14.')]),
    dict(id='c18-from-str-bypasses', property='C18', expect=r'R18\.[13]', edits=[(CO,
         """impl FromStr for Longitude {
    type Err = ParseError;

    fn from_str(s: &str) -> Result<Self, Self::Err> {
        Self::parse(s)""", """impl FromStr for Longitude {
    type Err = ParseError;

    fn from_str(s: &str) -> Result<Self, Self::Err> {
        if let Ok(v) = s.trim().parse::<f64>() {
            return Ok(Self(v % 360.));
        }
        Self::parse(s)""")]),
    dict(id='c18-read-back-rounds', property='C18', expect=r'R18\.4', edits=[(WE,
         """impl From<Pressure> for f64 {
    fn from(value: Pressure) -> Self {
        value.0""", """impl From<Pressure> for f64 {
    fn from(value: Pressure) -> Self {
        value.0 as f32 as f64""")]),
    dict(id='c18-refactor-silent', property='C18', expect=None, edits=[('src/lib.rs',
         """        if Self::range().contains(&value) {
            Ok(Self::new(value))
        } else {
            Err(OutOfRangeError(Self::range()))
        }""", """        let range = Self::range();
        if value >= *range.start() && value <= *range.end() {
            return Ok(Self::new(value));
        }
        Err(OutOfRangeError(range))""")]),

    # ---------------------------------------------------------------- C17
    dict(id='c17-year-length-355', property='C17', expect=r'R17\.[23]', edits=[(HJ, '+ 354. * (year - 1.)', '+ 355. * (year - 1.)')]),
    dict(id='c17-month-offset-ceil', property='C17', expect=r'R17\.[24]', edits=[(HJ, '+ (month / 2.).floor()', '+ ((month + 1.) / 2.).floor()')]),
    dict(id='c17-leap-days-term', property='C17', expect=r'R17\.[23]', edits=[(HJ, '+ ((3. + 11. * year) / 30.).floor()', '+ ((4. + 11. * year) / 30.).floor()')]),
    dict(id='c17-century-rule', property='C17', expect=r'R17\.1', edits=[(HJ, '- (y_1 / 100.).floor()', '- (y_1 / 1000.).floor()')]),
    dict(id='c17-forward-guard-gt', property='C17', expect=r'R17\.3', edits=[(HJ, 'while greg_date >= Self::hijri_abs_date(1, 1, year + 1) {', 'while greg_date > Self::hijri_abs_date(1, 1, year + 1) {')]),
    dict(id='c17-backward-guard-le', property='C17', expect=r'R17\.3', edits=[(HJ, 'while greg_date < Self::hijri_abs_date(1, 1, year) {', 'while greg_date <= Self::hijri_abs_date(1, 1, year) {')]),
    dict(id='c17-leap-abs', property='C17', expect=r'R17\.6', edits=[(HJ, '(11 * year + 14).rem_euclid(30) < 11', '((11 * year).abs() + 14) % 30 < 11')]),
    dict(id='c17-leap-truncated-rem', property='C17', expect=r'R17\.6', edits=[(HJ, '(11 * year + 14).rem_euclid(30) < 11', '(11 * year + 14) % 30 < 11')]),
    dict(id='c17-leap-threshold', property='C17', expect=r'R17\.6', edits=[(HJ, '(11 * year + 14).rem_euclid(30) < 11', '(11 * year + 14).rem_euclid(30) < 10')]),
    dict(id='c17-leap-offset', property='C17', expect=r'R17\.6', edits=[(HJ, '(11 * year + 14).rem_euclid(30) < 11', '(11 * year + 15).rem_euclid(30) < 11')]),
    dict(id='c17-month-guard-ge', property='C17', expect=r'R17\.4', edits=[(HJ, 'while greg_date > Self::hijri_abs_date(Self::days_in_month(month, year), month, year) {',
                                                                             'while greg_date >= Self::hijri_abs_date(Self::days_in_month(month, year), month, year) {')]),
    dict(id='c17-month-parity', property='C17', expect=r'R17\.5', edits=[(HJ, 'if month % 2 != 1 && (month != 12', 'if month % 2 != 0 && (month != 12')]),
    dict(id='c17-leap-month-11', property='C17', expect=r'R17\.5', edits=[(HJ, 'if month % 2 != 1 && (month != 12', 'if month % 2 != 1 && (month != 10')]),
    dict(id='c17-weekday-zero-based', property='C17', expect=r'R17\.8', edits=[(HJ, 'let weekday = ((greg_date % 7).abs() + 1) as u8;', 'let weekday = ((greg_date % 7).abs()) as u8;')]),
    dict(id='c17-weekday-shifted', property='C17', expect=r'R17\.[18]', edits=[(HJ, 'let weekday = ((greg_date % 7).abs() + 1) as u8;', 'let weekday = (((greg_date + 1) % 7).abs() + 1) as u8;')]),
    dict(id='c17-bh-year-off-by-one', property='C17', expect=r'R17\.9', edits=[(HJ, 'year = -(year - 1);', 'year = -year;')]),
    dict(id='c17-bh-flag-strict', property='C17', expect=r'R17\.9', edits=[(HJ, 'if year <= 0 {\n            pre_epoch = true;', 'if year < 0 {\n            pre_epoch = true;')]),
    dict(id='c17-era-swapped', property='C17', expect=r'R17\.13', edits=[(HJ, 'if self.pre_epoch { "B.H." } else { "A.H." }', 'if self.pre_epoch { "A.H." } else { "B.H." }')]),
    dict(id='c17-display-order', property='C17', expect=r'R17\.13', edits=[(HJ, '            self.day,\n            self.year,\n            if self.pre_epoch', '            self.year,\n            self.day,\n            if self.pre_epoch')]),
    dict(id='c17-day-zero-based', property='C17', expect=r'R17\.2', edits=[(HJ, 'let day = (greg_date - Self::hijri_abs_date(1, month, year) + 1) as u8;', 'let day = (greg_date - Self::hijri_abs_date(1, month, year)) as u8;')]),
    dict(id='c17-day-table-swapped', property='C17', expect=r'R17\.1[03]', edits=[(HJ, '            6 => Ok(Jumaah),\n            7 => Ok(Sabt),', '            6 => Ok(Sabt),\n            7 => Ok(Jumaah),')]),
    dict(id='c17-epoch-thursday', property='C17', expect=r'R17\.[23]', edits=[(HJ, 'const HIJRI_EPOCH: i32 = 227015;', 'const HIJRI_EPOCH: i32 = 227014;')]),
    dict(id='c17-accessor-wrong-field', property='C17', expect=r'R17\.1[23]', edits=[(HJ, '    pub fn day(&self) -> u8 {\n        self.day\n    }', '    pub fn day(&self) -> u8 {\n        self.month\n    }')]),
    dict(id='c17-refactor-silent', property='C17', expect=None, edits=[(HJ, 'let y_1 = (date.year() - 1) as f64;', 'let y_1 = f64::from(date.year()) - 1.;'),
                                                                        (HJ, 'year = -(year - 1);', 'year = 1 - year;')]),

    dict(id='c17-refactor-int-division-silent', property='C17', expect=None, edits=[(HJ,
         """        let y_1 = (date.year() - 1) as f64;
        (date.ordinal() as f64 + 365. * y_1 + (y_1 / 4.).floor() - (y_1 / 100.).floor()
            + (y_1 / 400.).floor()) as i32""",
         """        let y_1 = date.year() - 1;
        date.ordinal() as i32 + 365 * y_1 + y_1 / 4 - y_1 / 100 + y_1 / 400""")]),
    dict(id='c17-leap-days-truncated', property='C17', expect=r'R17\.[23]', edits=[(HJ,
         """            + ((3. + 11. * year) / 30.).floor()""",
         """            + ((3 + 11 * (year as i32)) / 30) as f64""")]),
    dict(id='c17-refactor-quarter-product-silent', property='C17', expect=None, edits=[(HJ, '(y_1 / 4.).floor()', '(y_1 * 0.25).floor()')]),
    dict(id='c17-reciprocal-product-inexact', property='C17', expect=r'R17\.(14|2)', edits=[(HJ, '+ ((3. + 11. * year) / 30.).floor()', '+ ((3. + 11. * year) * (1. / 30.)).floor()')]),
    # ---------------------------------------------------------------- C20
    dict(id='c20-gmt-sign', property='C20', expect=r'R20\.1', edits=[(JD, '(date.day() as f64 - f64::from(gmt) / 24.)', '(date.day() as f64 + f64::from(gmt) / 24.)')]),
    dict(id='c20-gmt-scale', property='C20', expect=r'R20\.1', edits=[(JD, '(date.day() as f64 - f64::from(gmt) / 24.)', '(date.day() as f64 - f64::from(gmt) / 12.)')]),
    dict(id='c20-gmt-dropped', property='C20', expect=r'R20\.[12]|floor', edits=[(JD, '(date.day() as f64 - f64::from(gmt) / 24.)', '(date.day() as f64)')]),
    dict(id='c20-gmt-twice', property='C20', expect=r'R20\.2', edits=[(JD, '        value.value\n', '        value.value - f64::from(value.gmt) / 24.\n')]),
    dict(id='c20-transit-lon-sign', property='C20', expect=r'R20\.3', edits=[(HR, '        - f64::from(top_astro_day.coords().longitude)\n        - top_astro_day.astro().sid_time())',
                                                                          '        + f64::from(top_astro_day.coords().longitude)\n        - top_astro_day.astro().sid_time())')]),
    dict(id='c20-transit-lon-scale', property='C20', expect=r'R20\.3', edits=[(HR, '        - f64::from(top_astro_day.coords().longitude)\n        - top_astro_day.astro().sid_time())',
                                                                           '        - 2. * f64::from(top_astro_day.coords().longitude)\n        - top_astro_day.astro().sid_time())')]),
    dict(id='c20-hour-angle-lon-sign', property='C20', expect=r'R20\.3', edits=[(HR, '(sid_time_gw + f64::from(top_astro_day.coords().longitude) - ra_interp).cap_angle_between_180()',
                                                                             '(sid_time_gw - f64::from(top_astro_day.coords().longitude) - ra_interp).cap_angle_between_180()')]),
    dict(id='c20-topocentric-lon-sign', property='C20', expect=r'R20\.3', edits=[(AS, 'let hours = (astro.sid_time + f64::from(coords.longitude) - astro.ra)',
                                                                              'let hours = (astro.sid_time - f64::from(coords.longitude) - astro.ra)')]),
    dict(id='c20-hour-angle-ra-sign', property='C20', expect=r'R20\.3', edits=[(HR, '(sid_time_gw + f64::from(top_astro_day.coords().longitude) - ra_interp).cap_angle_between_180()',
                                                                            '(ra_interp + f64::from(top_astro_day.coords().longitude) - sid_time_gw).cap_angle_between_180()')]),
    dict(id='c20-refactor-silent', property='C20', expect=None, edits=[(HR, '    let m_0 = (top_astro_day.astro().ra()\n        - f64::from(top_astro_day.coords().longitude)\n        - top_astro_day.astro().sid_time())\n        / TWO_PI_DEG;',
                                                                        '    let lon = f64::from(top_astro_day.coords().longitude);\n    let m_0 = (top_astro_day.astro().ra() - (lon + top_astro_day.astro().sid_time())) / TWO_PI_DEG;'),
                                                                       (JD, '(date.day() as f64 - f64::from(gmt) / 24.)', '(f64::from(date.day()) - f64::from(gmt) / 24.)')]),
]
