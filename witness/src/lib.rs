//! Compile-fail witnesses (thorough tier of C18 / C19).  Every `compile_fail,E....` block has a compiling twin
//! that differs only in the offending line, so a witness that fails for an unrelated reason is noticed.
//! Nothing here is executed (`no_run`).

/// C18: a validated quantity cannot be built from a raw number outside the crate (private field).
///
/// ```compile_fail,E0423
/// use islamic_prayer_times::*;
/// let _x = Latitude(95.0);
/// ```
/// ```compile_fail,E0423
/// use islamic_prayer_times::*;
/// let _x = Longitude(195.0);
/// ```
/// ```compile_fail,E0423
/// use islamic_prayer_times::*;
/// let _x = Elevation(1.0e9);
/// ```
/// ```compile_fail,E0423
/// use islamic_prayer_times::*;
/// let _x = Gmt(40.0);
/// ```
/// ```compile_fail,E0423
/// use islamic_prayer_times::*;
/// let _x = Pressure(5000.0);
/// ```
/// ```compile_fail,E0423
/// use islamic_prayer_times::*;
/// let _x = Temperature(1000.0);
/// ```
/// twin (the checked route compiles):
/// ```no_run
/// use islamic_prayer_times::*;
/// let _x = Latitude::try_from(95.0);
/// let _y = Pressure::try_from(5000.0);
/// ```
pub struct NoRawConstruction;

/// C18: the stored value cannot be overwritten from outside.
///
/// ```compile_fail,E0616
/// use islamic_prayer_times::*;
/// let mut l = Latitude::try_from(45.0).unwrap();
/// l.0 = 95.0;
/// ```
/// twin:
/// ```no_run
/// use islamic_prayer_times::*;
/// let l = Latitude::try_from(45.0).unwrap();
/// let _v: f64 = f64::from(l);
/// ```
pub struct NoFieldWrite;

/// C18: the unchecked constructor of the private trait is not reachable from outside.
///
/// ```compile_fail,E0603
/// use islamic_prayer_times::Bounded;
/// ```
/// twin:
/// ```no_run
/// use islamic_prayer_times::OutOfRangeError;
/// ```
pub struct NoUncheckedCtor;

/// C19: the location is assembled from *typed* coordinates - swapping latitude and longitude does not type-check.
///
/// ```compile_fail,E0308
/// use islamic_prayer_times::*;
/// let lat = Latitude::try_from(10.0).unwrap();
/// let lon = Longitude::try_from(20.0).unwrap();
/// let el = Elevation::try_from(0.0).unwrap();
/// let _c = Coordinates::new(lon, lat, el);
/// ```
/// twin:
/// ```no_run
/// use islamic_prayer_times::*;
/// let lat = Latitude::try_from(10.0).unwrap();
/// let lon = Longitude::try_from(20.0).unwrap();
/// let el = Elevation::try_from(0.0).unwrap();
/// let _c = Coordinates::new(lat, lon, el);
/// ```
pub struct TypedCoordinates;
