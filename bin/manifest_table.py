ASSUME = 'rustc nightly MIR (mir-opt-level=0) of the working tree; std/chrono/serde semantics as modelled in analysis/models.py (DESIGN 3.5)'
CHECKS['C18'] = dict(
    text='Structural proof of the construction discipline: every construction site of the six validated newtypes '
         '(derive expansions, CLI and const items included) is the guarded constructor or an in-range constant; the guard is '
         'the closed documented range on the same value; TryFrom/FromStr/Deserialize all delegate to it; reads return the field. '
         'Complete for the stated structural clauses; float parsing itself is std/serde.'
         ' R18.7: the text route is interpreted on constant witness spellings of the f64 grammar (sign, bare point, exponent, leading zeros): a spelling answered Err before parsing is a route disagreement.'
         ' R18.8: str::parse is applied to the input text itself; R18.9: the numeric route accepts witness values of the range (end points, zeros, subnormals).',
    note=ASSUME + '; serde try_from attribute semantics are checked on the expansion, str::parse/serde_json number parsing trusted',
    technique='who-may-construct query + delegation-chain check by abstract interpretation of MIR')
CHECKS['C07'] = dict(
    text='Inventory + discharge: every panic-capable call / Assert terminator / loop in the MIR bodies reachable from prayer_times_dt '
         'is enumerated and discharged by abstract interpretation over all skeleton worlds (15 policies x 16 validity patterns x free '
         'conditions; RefCell borrow state and Ok/Err typestate tracked exactly), by the key tables of Params::new, by an upper-bound '
         'argument for the NaiveTime operands, by loop classification or a reviewed entry; an undischarged site is a violation. '
         'Panics/hangs that need numeric reasoning (inf/NaN) are not decided.'
         ' Recursion (R7.4): a self-recursive call needs a ranking argument on the guard that dominates it, bounded over the minute-offset domain.'
         ' Includes the failure sites of the range APIs (R15.5, R15.3 division-guarded).',
    note=ASSUME + '; inputs finite; Params keeps the keys Params::new inserts; chrono date arithmetic in range for 1600..2399',
    technique='panic-site inventory over the call graph + path-sensitive abstract interpretation (typestate) of MIR')
CHECKS['C08'] = dict(
    text='Exhaustive decision on the skeleton abstraction of the policy layer: for every policy x feasible initial validity pattern x '
         'outcome of every data-dependent branch, scope (Fajr/Isha-only policies leave the other four cells untouched), invalid-gate '
         'identity (measured against the same world under policy None) and flag/replacement agreement are checked on the final cells. '
         'Numeric values are abstracted to provenance terms (numeric agreement is C10).',
    note=ASSUME + '; Dhuhr always valid and Shurooq/Maghrib valid together (checked by C01/C06 rules)',
    technique='path-sensitive abstract interpretation of MIR over a finite predicate abstraction (skeleton worlds)')
CHECKS['C01'] = dict(
    text='Structural clauses only: Dhuhr is Ok in every outcome of the conventional layer and in every skeleton world (always reported); '
         'modular-angle hygiene of every combination of wrapped angles - differences of the right ascension across days are continuous '
         'for every position of the 360->0 seam (R1.2); the Dhuhr term depends on no method parameter and not on weather. '
         'The 10-second agreement with an independent ephemeris is numeric and is not decided.'
         ' Includes the clock-time conversion rules R11.4/R11.7 (Dhuhr is reported only if its conversion cannot fail) and R20.1 (the GMT offset enters the Julian Day as exactly -gmt/24); the None row of the rounding table (unrounded seconds are reported as computed) and R20.5 (no hidden state on the computation path) - the latter two also in C02, C03, C04.',
    note=ASSUME + '; the Sun\'s RA moves < 1.2 deg/day',
    technique='typestate over skeleton worlds + term-level modular-arithmetic (residue) analysis + dependence (non-interference) on reconstructed terms')
CHECKS['C05'] = dict(
    text='Decides: exactly seven entries (key sets on every path, all outcomes), Fajr/Asr/Isha on the correct side of the very Dhuhr term '
         'with offsets in [0,12] h (interval domain), nothing flagged extreme and only conventional/interval values under policy None '
         'in every skeleton world. Strict order between values of different solvers is numeric: not decided.'
         ' Includes the seam hygiene R1.2, the clock-time conversion rules R11.4/R11.7 (wraps, bounded operands), the interval definitions R12.2 and the existence guard R6.1.',
    note=ASSUME + '; acos in [0, pi]',
    technique='key-set analysis + interval abstract domain on reconstructed terms + skeleton worlds')
CHECKS['C06'] = dict(
    text='Structural iff: every acos is guarded by the closed interval [-1,1] on exactly its own argument, guarded branch Ok / other Err, '
         'no other validity source, sunrise/sunset share one guard, policy None preserves validity in every skeleton world. '
         'That |cos H| > 1 matches the astronomical truth to 0.05 deg is numeric: not decided.'
         ' Includes the Imsaak builder rules (R6.5): Imsaak is the rerun\'s Fajr and the minutes fallback applies only to a replaced Fajr.'
         ' R6.6 includes the Julian-Day century rule (validity is decided from the declination of the requested date).',
    note=ASSUME,
    technique='guard/argument identity on reconstructed terms + skeleton worlds')
CHECKS['C11'] = dict(
    text='Exhaustive decision table of the time converter (4 modes x 6 keys; Imsaak via the Fajr key): action, threshold constant and '
         'operator, carry constant, minute recomputed from the carried hour, >=24 and <0 wraps, offset key. Float edge behaviour at exact '
         'second boundaries is not decided.'
         ' R11.7 bounds the from_hms_opt operands; R11.8 includes the Imsaak wiring rule (Imsaak is converted by the same converter).',
    note=ASSUME,
    technique='conditional constant propagation / abstract interpretation of the converter for every (mode, key) + term pattern checks')
CHECKS['C13'] = dict(
    text='Wrap clause only (no wrap-induced jumps): modular-angle hygiene R1.2 as in C01. Second-difference and 4-minute bounds and the '
         'calendar arithmetic are numeric: not decided. Includes the None row of the rounding table (the property is stated for unrounded seconds) and the 24 h wrap rules of the converter.',
    note=ASSUME + '; the compared angle moves < 1.2 deg/day',
    technique='term-level modular-arithmetic (residue) analysis with seam-position case split')
CHECKS['C14'] = dict(
    text='Structural clauses: inclusive day count (end-start)+1 whose signed->unsigned cast is clamped at 0; the range API iterates '
         'start.iter_days().take(num_days()), calls the single-date API with unchanged params for exactly that date and stores it under '
         'that date; partition blocks are [s, min(s+B-1,end)], next start s+B, B = ceil(days/count), guard s <= end. '
         '`at most max(k,1) parts` is arithmetic on runtime sizes: not decided.'
         ' R14.1 also requires that a negative day difference is clamped, not folded by an absolute value; R14.2 accepts a range API that does not call the single-date API if every stored value is that API\'s own value term for its date. Includes R20.5 (no thread-local, static or lock-protected state on the computation path).',
    note=ASSUME + '; chrono date arithmetic',
    technique='abstract interpretation of the range functions + linear-form / lower-bound checks on the reconstructed terms')
CHECKS['C15'] = dict(
    text='Schedule-independent structural proof obligations on MIR: every Sender moved into a worker or dropped before the collector join '
         '(typestate over every path), collector leaves its loop only on recv()=Err, workers call the sequential function on the shared '
         'params/location and their own partition element and send that result exactly once, work list = unmodified partition(n) with '
         'the tested n, collector only appends into the returned map. With C14 this gives equality with the sequential map under every '
         'interleaving.'
         ' R15.5 inventories the failure sites of the range API (an argument that must be positive is evaluated for the empty range); includes C14\'s R14.1/R14.3.'
         ' R15.6 block independence: what the sequential API stores under a date mentions no loop-carried state besides the date. Includes R20.5 (no thread-local, static or lock-protected state on the computation path).',
    note=ASSUME + '; mpsc channel closure and thread::scope join semantics; C14',
    technique='move/drop typestate on per-path event traces from abstract interpretation + call/argument identity checks')
CHECKS['C16'] = dict(
    text='Decides on the reconstructed constructor term: full-circle image (atan2 then degrees), no dependence on elevation, the two Kaaba '
         'constants, east/west antisymmetry (parity domain) and sign convention, rotation label = sign of the same field, Display prints '
         '|degrees| and the label. The 1e-6 degree agreement is numeric: not decided.'
         ' R16.6: a remainder/wrap applied to the longitude difference has a period that is a multiple of 360 deg.'
         ' R16.1 also requires the bearing to be atan2 itself (a negated atan2 has the half-open image on the wrong side).'
         ' R16.7 compares the atan2 arguments with the great-circle formula as polynomials over the sines/cosines and demands an asymmetric north/south mirror; R16.8 the label is not cut by a forwarded precision.',
    note=ASSUME + '; atan2 image (-pi, pi]',
    technique='interval + parity abstract domains and dependence on the reconstructed bearing term')
CHECKS['C19'] = dict(
    text='Wiring of the binary decided on MIR: validated newtypes as argument field types, unmodified flow into Coordinates/Location, '
         'method/start/end wiring with documented defaults, parsing dominates the library call, file route through from_str::<ParamsConfig>, '
         'serialised/listed value is the library result of the one ParamsConfig, -p file is that same ParamsConfig. '
         'JSON bytes, exit codes, terminal text are clap/serde/std semantics: not decided.'
         ' Includes the construction discipline of the validated types (R18.1-R18.5), a premise of the rejection clause.'
         ' Also includes C17\'s conversion/printing rules (the listing prints the Hijri date of every day).'
         ' R19.8: no hand-written rejection on the Deserialize route that the command line does not share.',
    note=ASSUME + '; clap derive uses the field type\'s FromStr (C18); serde derive symmetry',
    technique='field-type + value-flow (wiring) analysis by abstract interpretation of the bin crate\'s MIR')
CHECKS['C02'] = dict(
    text='Decides: weather non-interference (directly and through policy None), one horizon constant in [-0.883,-0.783] used both in cos H0 '
         'and in the altitude correction, the weather factor of the refraction (increasing in pressure, decreasing in temperature, 1 at '
         'standard conditions), rise/set day fraction normalised into [0,1], shared guard, hemisphere parity of cos H0. The 0.05 degree '
         'altitude agreement is numeric: not decided.'
         ' Includes the Julian-Day century rule and the seam hygiene R1.2 (shared mechanisms that are necessary conditions here).',
    note=ASSUME + '; |lat| <= 60, |dec| < 24',
    technique='dependence, interval, monotone and parity abstract domains on the reconstructed rise/set terms')
CHECKS['C03'] = dict(
    text='Decides on the reconstructed twilight terms: key flow (own angle only; Imsaak perturbs only the Fajr entry of a clone by the '
         'documented amount per branch and is the rerun\'s Fajr), orientation around the very Dhuhr term within 12 h, monotone in the own '
         'angle, hemisphere parity, validity guard. Agreement with an ephemeris (0.03 / 0.5 deg) is numeric: not decided.'
         ' Includes the Julian-Day century rule and the seam hygiene R1.2.',
    note=ASSUME + '; |lat| <= 60, |dec| < 24, angles in [0,25]; libm monotone on monotone branches',
    technique='dependence, interval, monotone and parity abstract domains on reconstructed terms + abstract interpretation of the Imsaak builder')
CHECKS['C04'] = dict(
    text='Decides: k is the numeric school enum (Shafi=1, Hanafi=2), only Asr depends on it, Asr = Dhuhr + t with t in [0,12] h, Asr weakly '
         'increasing in k (Hanafi not earlier than Shafi for every input), shadow-length term k + tan|lat-dec| >= k, hemisphere parity. '
         'The 0.03 degree altitude and Asr < Maghrib are numeric: not decided.'
         ' Includes the Julian-Day century rule and the seam hygiene R1.2.',
    note=ASSUME + '; |lat| <= 60, |dec| < 24; libm monotone on monotone branches',
    technique='ADT discriminants + dependence, interval, monotone and parity abstract domains on the reconstructed Asr term')
CHECKS['C10'] = dict(
    text='Decided on all skeleton worlds with polynomial normal forms: nearest-latitude worlds take the same-key entry of the conventional '
         'computation at coordinates differing in latitude only (and do so wherever the policy applies); seventh-of-night/day, angle-based '
         'and minutes-from-maghrib values are polynomially identical to the documented expressions and are applied where the policy says; '
         'the interval definition is re-applied after every policy except the three interval consumers; replaced values are flagged. '
         'The 3-second numeric agreement is not decided.',
    note=ASSUME + '; different polynomials in free atoms are different functions',
    technique='skeleton worlds + polynomial normal-form identity of the replaced value terms')
CHECKS['C12'] = dict(
    text='Non-interference matrix parameters x times on the reconstructed terms (no-dispatch worlds) + pairing rules: interval definitions '
         'Isha = Maghrib + intervals[Isha]/60, Fajr = Shurooq - intervals[Fajr]/60 (polynomial identity), each entry converted/offset under '
         'its own key, Imsaak branches with documented amounts, absent weather = Weather::default(). Exact minute amounts beyond the /60 '
         'factor are numeric.'
         ' Includes the clock-time conversion rules R11.4/R11.7, the policy scope / invalid-gate rules R8.1/R8.2 and the own-angle rule R10.2.',
    note=ASSUME + '; dispatch worlds excluded (documented coupling of Fajr/Isha: C08-C10)',
    technique='dependence (non-interference) analysis + polynomial identity on reconstructed terms')
CHECKS['C09'] = dict(
    text='Decides on the search loop: radius >= 78 days for every request date (interval of the loop bound), distance starts at 0, the '
         'earlier date is probed before the later one at each distance and a hit ends the search (per-path probe traces), candidates are '
         'computed at the request\'s coordinates with date and Julian Day stepped together, after a hit Fajr and Isha are reported, the '
         'values written are the candidate\'s same-key entries (all six / only the invalid Fajr-Isha), flagged. Equality to the second is '
         'numeric: not decided.'
         ' A candidate chosen by a condition is judged per case; includes the Julian-Day rule (R9.6): the search counts Julian Days.',
    note=ASSUME + '; |lat| <= 64 and angles <= 20 deg => twilight-free season within +/-78 days of the solstice',
    technique='interval domain on the loop bound + per-path probe-order traces + skeleton worlds with same-key value identity')
for _p in []:
    NA[_p] = 'check not yet registered in this commit (design in DESIGN.md §4; being built)'
CHECKS['C17'] = dict(
    text='Structural clauses of the tabular calendar decided on the abstract value of HijriDate::from(date) (helpers inlined, loops '
         'abstracted): both day-number formulas agree with the reference formulas (polynomial normal forms over floor atoms; Friday epoch '
         'R.D. 227015), the backward/forward year searches establish the half-open interval [1 Muharram y, 1 Muharram y+1) and the month '
         'search the closed month end (guard + step of every loop), month lengths 30/29 with a 30-day twelfth month in leap years (truth '
         'table over 12 month numbers x leap), euclidean 30-year leap rule (valid before the epoch), weekday = (day number mod 7)+1 in 1..=7, '
         'before-Hijra mapping, number->enum tables vs declared discriminants, accessor/Display wiring incl. the B.H./A.H. suffix, '
         'construction only by From<NaiveDate>, failure-site inventory of conversion and printing. Day-for-day equality on each of the '
         '3,652,059 dates, the initial year estimate and integer-overflow checks are arithmetic over runtime values: not decided.'
         ' R17.14: every floor is taken of an exactly computed integer quotient (no inexact f64 sum or reciprocal product that can fall below an integer it should reach).',
    note=ASSUME + '; dates of the common era (year() >= 1); all formula atoms are integers; atoms of a normal form are independent',
    technique='abstract interpretation of the conversion + reference-formula comparison on polynomial normal forms, loop guard/step rules, '
              'finite truth tables, panic-site inventory')
CHECKS['C20'] = dict(
    text='Sign / scale structure of the two dependencies only (necessary conditions): the Julian Day is linear in the GMT offset with '
         'coefficient exactly -1/24 (+1 in the day of month) in every branch of the constructor; the GMT offset is converted to a number only '
         'inside that constructor among all functions reachable from prayer_times_dt; every linear form that combines the longitude with the '
         'sidereal time and the right ascension (transit fraction, hour angles, topocentric hour angle) is k*(sidereal + longitude - RA). '
         'The 10-second agreement, the validity clause and the ephemeris itself are numeric relations between outputs: not decided.'
         ' R20.5: no thread-local, static or lock-protected state on the computation path (the result is a function of the arguments). Includes the Julian-Day rule, the seam hygiene R1.2 and the clock-time conversion rules R11.4/R11.7. R20.6: the rise/set day fraction is wrapped into [0,1) of the clock day after the sidereal time of local midnight (which moves with the GMT offset) has entered it - a GMT change that carries sunrise/sunset across clock midnight selects the neighbouring day\'s event (1 h + 112 s at lat 45, lon 0, GMT -6.5 -> -5.5, 2023-03-20): a genuine finding on the unchanged tree, listed in KNOWN_FINDINGS.txt (two KNOWN-FINDING lines, exit 0).',
    note=ASSUME + '; east longitudes positive; sidereal-time / right-ascension fields recognised from the per-day constructor (360.98564736629 deg/day; atan2)',
    technique='polynomial normal forms (coefficient extraction) on reconstructed terms + who-may-call query on the call graph')
