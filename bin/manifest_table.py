ASSUME = 'rustc nightly MIR (mir-opt-level=0) of the working tree; std/chrono/serde semantics as modelled in analysis/models.py (DESIGN 3.5)'
CHECKS['C18'] = dict(
    text='Structural proof of the construction discipline: every construction site of the six validated newtypes '
         '(derive expansions, CLI and const items included) is the guarded constructor or an in-range constant; the guard is '
         'the closed documented range on the same value; TryFrom/FromStr/Deserialize all delegate to it; reads return the field. '
         'Complete for the stated structural clauses; float parsing itself is std/serde.',
    note=ASSUME + '; serde try_from attribute semantics are checked on the expansion, str::parse/serde_json number parsing trusted',
    technique='who-may-construct query + delegation-chain check by abstract interpretation of MIR')
for _p in ['C01','C02','C03','C04','C05','C06','C07','C08','C09','C10','C11','C12','C13','C14','C15','C16','C19']:
    NA[_p] = 'check not yet registered in this commit (design in DESIGN.md §4; being built)'
NA['C17'] = 'calendar equality over 3.65 M dates is arithmetic over runtime values (float floor, data-dependent search loops): no clause is visible in the shape of the code'
NA['C20'] = 'metamorphic relation between numeric outputs through the whole ephemeris; the only structural fact behind it is not a necessary condition'
