ASSUME = 'rustc nightly MIR (mir-opt-level=0) of the working tree; std/chrono/serde semantics as modelled in analysis/models.py (DESIGN 3.5)'
CHECKS['C18'] = dict(
    text='Structural proof of the construction discipline: every construction site of the six validated newtypes '
         '(derive expansions, CLI and const items included) is the guarded constructor or an in-range constant; the guard is '
         'the closed documented range on the same value; TryFrom/FromStr/Deserialize all delegate to it; reads return the field. '
         'Complete for the stated structural clauses; float parsing itself is std/serde.',
    note=ASSUME + '; serde try_from attribute semantics are checked on the expansion, str::parse/serde_json number parsing trusted',
    technique='who-may-construct query + delegation-chain check by abstract interpretation of MIR')
CHECKS['C07'] = dict(
    text='Inventory + discharge: every panic-capable call / Assert terminator / loop in the MIR bodies reachable from prayer_times_dt '
         'is enumerated and discharged by abstract interpretation over all skeleton worlds (15 policies x 16 validity patterns x free '
         'conditions; RefCell borrow state and Ok/Err typestate tracked exactly), by the key tables of Params::new, by an upper-bound '
         'argument for the NaiveTime operands, by loop classification or a reviewed entry; an undischarged site is a violation. '
         'Panics/hangs that need numeric reasoning (inf/NaN) are not decided.',
    note=ASSUME + '; inputs finite; Params keeps the keys Params::new inserts; chrono date arithmetic in range for 1600..2399',
    technique='panic-site inventory over the call graph + path-sensitive abstract interpretation (typestate) of MIR')
CHECKS['C08'] = dict(
    text='Exhaustive decision on the skeleton abstraction of the policy layer: for every policy x feasible initial validity pattern x '
         'outcome of every data-dependent branch, scope (Fajr/Isha-only policies leave the other four cells untouched), invalid-gate '
         'identity (measured against the same world under policy None) and flag/replacement agreement are checked on the final cells. '
         'Numeric values are abstracted to provenance terms (numeric agreement is C10).',
    note=ASSUME + '; Dhuhr always valid and Shurooq/Maghrib valid together (checked by C01/C06 rules)',
    technique='path-sensitive abstract interpretation of MIR over a finite predicate abstraction (skeleton worlds)')
for _p in ['C01','C02','C03','C04','C05','C06','C09','C10','C11','C12','C13','C14','C15','C16','C19']:
    NA[_p] = 'check not yet registered in this commit (design in DESIGN.md §4; being built)'
NA['C17'] = 'calendar equality over 3.65 M dates is arithmetic over runtime values (float floor, data-dependent search loops): no clause is visible in the shape of the code'
NA['C20'] = 'metamorphic relation between numeric outputs through the whole ephemeris; the only structural fact behind it is not a necessary condition'
